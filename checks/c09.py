"""C09 - min-cost flow solvers (structural part): flow.py::min_cost_flow / solve_assignment, network_simplex.py."""

from __future__ import annotations

import ast

from sa.cfg import cfg_of
from sa.facts import canon, result_sites
from sa.guards import GuardView, atom_of, names_in
from sa.index import own_nodes
from sa.report import Ctx

from .common import generic_sweeps

EXPLANATION = (
    "Decides the few clauses of the min-cost-flow contract whose truth is in the shape of the code: (O1) min_cost_flow "
    "- the residual expression agrees between the Bellman-Ford search and the bottleneck loop, the bottleneck starts "
    "at demand - routed (never overshoots), the loop test is routed < demand; (O2) every flow increment on a cell is "
    "paired in its block with the cost increment for that cell and amount; (O3) verdict guards - min_cost_flow says "
    "INFEASIBLE only under 'no path', network_simplex only under unbalanced supplies / no arcs with non-zero supply / "
    "an artificial arc still carrying flow, its cost sums over original arcs only; (O4) solve_assignment wiring - unit "
    "capacities, demand min(n, m), status and objective forwarded unchanged; (O5) storage discipline for parallel and "
    "anti-parallel arcs - network_simplex pools parallel arcs in its result dictionary; min_cost_flow's cost of an arc "
    "and the residual cost of the opposite arc must not share a cell, and pooled capacity must not take the minimum "
    "cost. NOT decided (the bulk of the property, out of static reach): minimality, agreement of the two solvers, "
    "consistency of the spanning-tree update (parent/pred/thread/depth/pi), termination of the pointer walks."
)


def run(ctx: Ctx):
    f = ctx.func("flow", "min_cost_flow")
    bf = ctx.func("flow", "min_cost_flow.bellman_ford")
    # O1
    r1 = [n for n in own_nodes(bf.node) if isinstance(n, ast.Assign) and ast.unparse(n.targets[0]) == "residual"]
    r2 = [n for n in own_nodes(f.node) if isinstance(n, ast.Assign) and ast.unparse(n.targets[0]) == "residual"]
    ctx.require(len(r1) == 1 and len(r2) == 1, "residual computations of min_cost_flow not found")
    want = canon(ast.parse("capacity[u][v] - flow[u][v] + flow[v][u]", mode="eval").body)
    ctx.ob("C09-O1", "R18 SIBLING-AGREEMENT (expression)", f, "residual = capacity - flow + reverse flow in search and bottleneck", canon(r1[0].value) == canon(r2[0].value) == want, f"{ast.unparse(r1[0].value)} / {ast.unparse(r2[0].value)}", node=r2[0])
    w = [n for n in own_nodes(f.node) if isinstance(n, ast.While)]
    ctx.require(len(w) == 1, "main loop of min_cost_flow not found")
    w = w[0]
    ctx.ob("C09-O1", "R2 loop test", f, "main loop runs while routed flow < demand", ast.unparse(w.test) == "total_flow < demand", ast.unparse(w.test), node=w)
    init = [s for s in w.body if isinstance(s, ast.Assign) and ast.unparse(s.targets[0]) == "path_flow"]
    ctx.ob("C09-O1", "R30 ACCUMULATOR-PAIRING", f, "bottleneck starts at the missing amount (never overshoots the demand)", len(init) == 1 and ast.unparse(init[0].value) == "demand - total_flow", "", node=w)
    bt = ast.unparse(bf.node)
    ctx.ob("C09-O1", "R21 search discipline", bf, "relaxation uses only arcs with positive residual and strict improvement", "residual > 0 and dist[u] + cost[u][v] < dist[v]" in bt, "", node=bf.node)
    # O2 cost/flow pairing
    n_pairs = 0
    for n in ast.walk(w):
        if isinstance(n, ast.AugAssign) and isinstance(n.op, ast.Add) and ast.unparse(n.target) == "flow[u][v]":
            n_pairs += 1
            amount = ast.unparse(n.value)
            blk = _block_of(f.node, n)
            costs = [s for s in blk if isinstance(s, ast.AugAssign) and ast.unparse(s.target) == "total_cost"]
            ok = len(costs) == 1 and f"cost[u][v] * {amount}" in ast.unparse(costs[0].value)
            ctx.ob("C09-O2", "R30 ACCUMULATOR-PAIRING", f, f"flow increment `{ast.unparse(n)}` is paired with the cost of that cell and amount", ok, ast.unparse(costs[0]) if costs else "no cost update in the block", node=n)
        if isinstance(n, ast.AugAssign) and isinstance(n.op, ast.Sub) and ast.unparse(n.target) == "flow[v][u]":
            amount = ast.unparse(n.value)
            blk = _block_of(f.node, n)
            costs = [s for s in blk if isinstance(s, ast.AugAssign) and ast.unparse(s.target) == "total_cost"]
            ok = len(costs) == 1 and f"cost[v][u] * {amount}" in ast.unparse(costs[0].value) and "-" in ast.unparse(costs[0].value)
            ctx.ob("C09-O2", "R30 ACCUMULATOR-PAIRING", f, f"cancelled flow `{ast.unparse(n)}` refunds the cost of the cancelled cell", ok, "", node=n)
    ctx.floor("flow increments in min_cost_flow", n_pairs, 2)
    # O3 verdicts
    cfg = cfg_of(f.node)
    gv = GuardView(cfg)
    for k, s in enumerate(result_sites(f)):
        at = gv.guard_atoms(s.node)
        if "INFEASIBLE" in s.statuses:
            ctx.ob("C09-O3", "R1 STATUS-GUARD", f, f"Result#{k} INFEASIBLE only when no augmenting path exists", "path is None" in at, f"{sorted(at)}", node=s.call)
        else:
            ok = ast.unparse(s.arg("objective")) == "total_cost" and atom_of("total_flow >= demand") in at
            ctx.ob("C09-O3", "R1 STATUS-GUARD", f, f"Result#{k} success only after the demand is routed; objective is the accumulated cost", ok, f"{sorted(at)}", node=s.call)
    ns = ctx.func("network_simplex", "network_simplex")
    ncfg = cfg_of(ns.node)
    ngv = GuardView(ncfg)
    sites = result_sites(ns)
    ctx.floor("Result sites in network_simplex", len(sites), 5)
    for k, s in enumerate(sites):
        at = ngv.guard_atoms(s.node, stable_only=False)
        if "INFEASIBLE" in s.statuses:
            ok = any("sum(supplies)" in a for a in at) or ("F:arcs" in at and any("all(" in a for a in at)) or any(a in (atom_of("flow[arc] > 0"),) for a in at)
            ctx.ob("C09-O3", "R1 STATUS-GUARD", ns, f"Result#{k} INFEASIBLE only under unbalanced supplies or an artificial arc carrying flow", ok, f"{sorted(at)[:4]}", node=s.call)
            if atom_of("flow[arc] > 0") in at:
                loop = s.node.loop
                ctx.ob("C09-O3", "R1 STATUS-GUARD", ns, "artificial-flow test ranges over exactly the artificial arcs", loop is not None and loop.kind == "for" and ast.unparse(loop.ast.iter) == "range(m, total_arcs)", "", node=s.call)
    tc = [n for n in own_nodes(ns.node) if isinstance(n, ast.Assign) and ast.unparse(n.targets[0]) == "total_cost"]
    ctx.ob("C09-O3", "R5 PAIRING", ns, "cost is summed over the original arcs only", len(tc) == 1 and ast.unparse(tc[0].value) in ("sum((flow[i] * cost[i] for i in range(m)))", "sum((cost[i] * flow[i] for i in range(m)))"), "", node=ns.node)
    ctx.note("network_simplex: the pivot loop's max_iter exit reaches the same exact verdicts as convergence (default budget 10^6, no input inside the property's quantifier reaches it) - information only")
    # O4 assignment wiring
    sa = ctx.func("flow", "solve_assignment")
    t = ast.unparse(sa.node)
    ok = "graph[source].append((f'L{i}', 1, 0))" in t and "graph[f'L{i}'].append((f'R{j}', 1, cost_matrix[i][j]))" in t and "graph[f'R{j}'].append((sink, 1, 0))" in t
    ctx.ob("C09-O4", "R18 table", sa, "assignment network: unit capacities, row->column arcs carry the matrix cost, source/sink arcs cost 0", ok, "", node=sa.node)
    ctx.ob("C09-O4", "R18 table", sa, "demand is min(rows, columns)", "min_cost_flow(graph, source, sink, min(n, m))" in t, "", node=sa.node)
    for s in result_sites(sa):
        ok = ast.unparse(s.arg("objective")) == "result.objective" and ast.unparse(s.arg("status")) == "result.status"
        ctx.ob("C09-O4", "R3 STATUS-USE", sa, "status and objective of the flow solve are forwarded unchanged", ok, "", node=s.call)
    # O5 storage discipline
    fd = [n for n in own_nodes(ns.node) if isinstance(n, (ast.Assign, ast.AnnAssign)) and ast.unparse(n.targets[0] if isinstance(n, ast.Assign) else n.target) == "flow_dict"]
    ctx.require(len(fd) >= 1, "flow_dict construction not found in network_simplex")
    plain = [n for n in fd if isinstance(n.value, ast.DictComp)]
    accum = any(isinstance(n, ast.Assign) and ast.unparse(n.targets[0]).startswith("flow_dict[") and "flow_dict.get(" in ast.unparse(n.value) for n in own_nodes(ns.node)) or any(isinstance(n, ast.AugAssign) and ast.unparse(n.target).startswith("flow_dict[") for n in own_nodes(ns.node))
    ctx.ob("C09-O5", "R18 SIBLING-AGREEMENT (policy)", ns, "result dictionary pools parallel arcs (keys are (source, target) pairs)", accum and not plain, "a comprehension keyed by (source, target) keeps only the last of several parallel arcs", node=fd[0])
    # min_cost_flow: cost cells
    loops = [n for n in own_nodes(f.node) if isinstance(n, ast.For) and isinstance(n.iter, ast.Name) and n.iter.id == "graph"]
    ctx.require(len(loops) == 1, "construction loop of min_cost_flow not found")
    fwd = [s for s in ast.walk(loops[0]) if isinstance(s, ast.Assign) and ast.unparse(s.targets[0]) == "cost[u][v]"]
    rev = [s for s in ast.walk(loops[0]) if isinstance(s, ast.Assign) and ast.unparse(s.targets[0]) == "cost[v][u]"]
    shared = bool(fwd) and bool(rev)
    ctx.ob("C09-O5", "R27 WRITE-OWNERSHIP", f, "an arc's cost and the residual cost of the opposite arc live in different cells", not shared, "`cost[u][v]` (forward) and `cost[v][u]` (reverse residual) are the same table: with anti-parallel arcs one overwrites/undercuts the other", node=(rev or fwd or [loops[0]])[0])
    cap_sum = any(isinstance(s, ast.AugAssign) and ast.unparse(s.target) == "capacity[u][v]" for s in ast.walk(loops[0]))
    cost_min = any("min(cost[u][v]" in ast.unparse(s.value) for s in fwd)
    ctx.ob("C09-O5", "R18 SIBLING-AGREEMENT (policy)", f, "parallel arcs: pooled capacity is not priced at the minimum cost", not (cap_sum and cost_min), "capacities of parallel arcs are summed while their cost cell keeps the minimum: the dearer arc's capacity is used at the cheaper price", node=(fwd or [loops[0]])[0])
    generic_sweeps(ctx)


def _block_of(fn_node, stmt):
    for n in ast.walk(fn_node):
        for fld in ("body", "orelse"):
            b = getattr(n, fld, None)
            if isinstance(b, list) and any(s is stmt for s in b):
                return b
    return []


# ---------------------------------------------------------------------------------------------
from sa import mutate as M  # noqa: E402

FL, NS = "solvor/flow.py", "solvor/network_simplex.py"


def _v_flowdict_comprehension(tree):
    g = M.find_func(tree, "network_simplex")
    M.replace_stmt(g, lambda s: isinstance(s, ast.For) and M.src_has(s, "flow_dict.get("), [])
    M.replace_stmt(g, lambda s: isinstance(s, ast.AnnAssign) and M.src_has(s.target, "flow_dict"), M.stmts("flow_dict = {(source[i], target[i]): flow[i] for i in range(m) if flow[i] > 0}"))


def _v_cost_includes_artificial(tree):
    g = M.find_func(tree, "network_simplex")
    M.replace_expr(g, lambda e: M.src_is(e, "sum((flow[i] * cost[i] for i in range(m)))"), M.expr("sum((flow[i] * cost[i] for i in range(total_arcs)))"))


def _v_artificial_range(tree):
    g = M.find_func(tree, "network_simplex")
    M.replace_expr(g, lambda e: M.src_is(e, "range(m, total_arcs)"), M.expr("range(m + 1, total_arcs)"))


def _v_overshoot(tree):
    g = M.find_func(tree, "min_cost_flow")
    M.replace_stmt(g, lambda s: M.src_is(s, "path_flow = demand - total_flow"), M.stmts("path_flow = float('inf')"))


def _v_cost_unpaired(tree):
    g = M.find_func(tree, "min_cost_flow")
    M.replace_stmt(g, lambda s: M.src_is(s, "total_cost += cost[u][v] * path_flow"), [])


def _v_assignment_demand(tree):
    g = M.find_func(tree, "solve_assignment")
    M.replace_expr(g, lambda e: M.src_is(e, "min(n, m)"), M.expr("n"))


def _v_assignment_status(tree):
    g = M.find_func(tree, "solve_assignment")
    M.replace_expr(g, lambda e: M.src_is(e, "result.status"), M.expr("Status.OPTIMAL"))


def _v_infeasible_wrong(tree):
    g = M.find_func(tree, "min_cost_flow")
    M.replace_expr(g, lambda e: M.src_is(e, "path is None"), M.expr("path is None or path_cost > 0"))


def _t_reformat(tree):
    pass


VARIANTS = [
    M.Variant("network_simplex keeps the last parallel arc only (original defect)", NS, _v_flowdict_comprehension, "C09-O5"),
    M.Variant("network_simplex cost includes artificial arcs", NS, _v_cost_includes_artificial, "C09-O3"),
    M.Variant("artificial-flow test skips the first artificial arc", NS, _v_artificial_range, "C09-O3"),
    M.Variant("min_cost_flow bottleneck can overshoot the demand", FL, _v_overshoot, "C09-O1"),
    M.Variant("forward push without cost update", FL, _v_cost_unpaired, "C09-O2"),
    M.Variant("assignment demand = number of rows", FL, _v_assignment_demand, "C09-O4"),
    M.Variant("assignment hides the flow status", FL, _v_assignment_status, "C09-O4"),
    M.Variant("INFEASIBLE also when the path is expensive", FL, _v_infeasible_wrong, "C09-O3"),
    M.Variant("twin: reformat flow", FL, _t_reformat, None),
    M.Variant("twin: reformat network simplex", NS, _t_reformat, None),
]
