"""C09 - min-cost flow solvers (structural part): flow.py::min_cost_flow / solve_assignment, network_simplex.py."""

from __future__ import annotations

import ast

from sa.cfg import cfg_of
from sa.facts import canon, result_sites
from sa.guards import GuardView, atom_of, names_in
from sa.index import own_nodes
from sa.report import Ctx

from .common import generic_sweeps

EXPLANATION = (
    "Decides the clauses of the min-cost-flow contract whose truth is in the shape of the code: (O1) min_cost_flow - "
    "every input arc creates a forward residual edge and, adjacent to it, a backward partner (capacity 0, negated cost), "
    "both registered in the adjacency; the Bellman-Ford search relaxes every residual edge with capacity left on strict "
    "improvement, storing distance and parent edge together; the bottleneck starts at demand - routed and the loop test "
    "is routed < demand; (O2) augmentation moves the amount from each path edge to its partner and pays that edge's own "
    "cost for it, in one block; (O3) verdict guards - min_cost_flow says INFEASIBLE only under 'no path', "
    "network_simplex only under unbalanced supplies / no arcs with non-zero supply / an artificial arc still carrying "
    "flow; its cost sums over original arcs only and its big-M is built from absolute costs; (O4) solve_assignment "
    "wiring - unit capacities, demand min(n, m), status and objective forwarded unchanged; (O5) storage discipline - "
    "capacities and costs are kept per arc (never per ordered node pair), parallel arcs are pooled only in the returned "
    "dictionaries, by accumulation; (O6) network-simplex tree update - the subtree cut off by the leaving arc is "
    "re-rooted at the entering arc's endpoint (stem reversed), every tree change is followed by a refresh of depths "
    "and potentials, tree arcs stay basic whatever their flow. (O7) pivot mechanics of the network simplex - arc table and artificial arcs, one reduced-cost formula, pricing rule, push direction, ratio test and augmentation coherent and mirrored on the two cycle halves, join, residual, initial potentials; node universe, source distance and path reconstruction of min_cost_flow. NOT decided: minimality, agreement of the two solvers, "
    "anti-cycling / termination of the pivot loop (bounded by max_iter only)."
)


def _blk(fn_node, stmt):
    for n in ast.walk(fn_node):
        for fld in ("body", "orelse", "finalbody"):
            b = getattr(n, fld, None)
            if isinstance(b, list) and any(x is stmt for x in b):
                return b
    return []


def round14_repairs(ctx: Ctx):
    """Two repairs of round 14 as obligations."""
    from .sat_common import _need

    ns = ctx.func("network_simplex", "network_simplex")
    _need(ctx, "C09-O7", "R18 table", ns, "node potentials start as exact integers (with integer costs every reduced cost is then exact)", ["pi = [0] * total_nodes"], "float potentials carry the big-M of the artificial arcs - (sum of |cost|) * n - which passes 2**53 long before a single cost does: a cost difference of 1 between parallel arcs is rounded away and a dearer flow is called OPTIMAL (costs of 1e12 on 40 nodes: ledger row 65)")
    mcf = ctx.func("flow", "min_cost_flow")
    cfg = cfg_of(mcf.node)
    guards = [n for n in mcf.node.body if isinstance(n, ast.If) and ast.unparse(n.test) in ("demand < 0", "0 > demand") and any(isinstance(x, ast.Raise) for x in n.body)]
    loops = [n for n in own_nodes(mcf.node) if isinstance(n, ast.While) and "demand" in names_in(n.test)]
    ok = len(guards) == 1 and bool(loops) and all(cfg.dominates(cfg.stmt_node_containing(guards[0].test), cfg.stmt_node_containing(l_.test)) for l_ in loops)
    ctx.ob("C09-O1", "R14 GATE", mcf, "a negative demand is rejected before the augmenting loop", ok, "with demand < 0 the loop `while total_flow < demand` never runs and the empty flow is reported as OPTIMAL with cost 0 (ledger row 66)", node=guards[0] if guards else mcf.node)


def run(ctx: Ctx):
    ctx.step(round14_repairs)
    f = ctx.func("flow", "min_cost_flow")
    bf = ctx.func("flow", "min_cost_flow.bellman_ford")
    cfg = cfg_of(f.node)
    t_mcf = ast.unparse(f.node)
    # O1 residual graph: one forward and one backward edge per input arc, adjacent indices (e, e ^ 1)
    loops = [n for n in own_nodes(f.node) if isinstance(n, ast.For) and isinstance(n.iter, ast.Subscript) and ast.unparse(n.iter.value) == "graph"]
    ctx.require(len(loops) == 1, "arc loop of min_cost_flow not found")
    body = [ast.unparse(x) for x in loops[0].body]
    fwd = ["adj[u].append(len(edge_to))", "edge_from.append(u)", "edge_to.append(v)", "edge_cap.append(cap)", "edge_cost.append(c)"]
    bwd = ["adj[v].append(len(edge_to))", "edge_from.append(v)", "edge_to.append(u)", "edge_cap.append(0)", "edge_cost.append(-c)"]
    def in_order(seq, start=0):
        i = start
        for x in seq:
            if x not in body[i:]:
                return -1
            i = body.index(x, i) + 1
        return i
    e1 = in_order(fwd)
    e2 = in_order(bwd, e1) if e1 > 0 else -1
    uncond = all(isinstance(x, (ast.Expr,)) for x in loops[0].body if "append" in ast.unparse(x))
    ctx.ob("C09-O1", "R18 SIBLING-AGREEMENT (policy)", f, "every input arc creates a forward residual edge (its own capacity and cost), registered at its tail", e1 > 0 and uncond, "", node=loops[0])
    ctx.ob("C09-O1", "R18 SIBLING-AGREEMENT (policy)", f, "...and, right after it, a backward partner with capacity 0 and the negated cost, registered at the head (partners are e and e ^ 1)", e2 > 0 and uncond, "without the backward edge flow can never be re-routed: the cheapest combination of paths is missed", node=loops[0])
    # Bellman-Ford relaxes every residual edge with positive capacity, strictly, from reached nodes only
    rel = [n for n in own_nodes(bf.node) if isinstance(n, ast.If) and "edge_cost" in ast.unparse(n.test)]
    ok = len(rel) == 1 and canon(rel[0].test) == canon(ast.parse("edge_cap[e] > 0 and dist[u] + edge_cost[e] < dist[v]", mode="eval").body)
    inner = [n for n in own_nodes(bf.node) if isinstance(n, ast.For) and ast.unparse(n.iter).startswith("adj[")]
    ok = ok and len(inner) == 1 and ast.unparse(inner[0].iter) == "adj[u]" and ast.unparse(inner[0].target) == "e" and "v = edge_to[e]" in ast.unparse(inner[0])
    bcfg = cfg_of(bf.node)
    if ok:
        at = GuardView(bcfg).guard_atoms(bcfg.node_of(rel[0].body[0]), stable_only=False)
        ok = not any("e %" in a or "% 2" in a for a in at)
    extra_at = []
    if ok:
        allowed = {atom_of("dist[u] + edge_cost[e] < dist[v]"), atom_of("dist[u] != float('inf')"), atom_of("edge_cap[e] > 0")}
        at2 = GuardView(bcfg).guard_atoms(bcfg.node_of(rel[0].body[0]), stable_only=False, after_loops=False)
        extra_at = sorted(a for a in at2 if a not in allowed and not a.startswith("IN-LOOP:"))
        ok = not extra_at
    ctx.ob("C09-O1", "R21 search discipline", bf, "the path search relaxes every residual edge (forward and backward) of a reached node that has capacity left, on strict improvement", ok, (f"relaxation additionally requires {extra_at}: with negative residual costs any reached node can still shorten a path, so a pruned relaxation returns a non-shortest augmenting path and the final cost is not minimal" if extra_at else ""), node=bf.node)
    ok = any(ast.unparse(x) == "dist[v] = dist[u] + edge_cost[e]" for x in rel[0].body) and any(ast.unparse(x) == "parent_edge[v] = e" for x in rel[0].body) if rel else False
    ctx.ob("C09-O1", "R21 search discipline", bf, "distance and parent edge are stored together", ok, "", node=bf.node)
    bt = ast.unparse(bf.node)
    ctx.ob("C09-O1", "R20 ROUND-COUNT", bf, "n-1 relaxation rounds over all nodes; unreachable sink -> no path", "for _ in range(len(nodes) - 1)" in bt and "for u in nodes" in bt and "dist[sink] == float('inf')" in bt, "", node=bf.node)
    ctx.ob("C09-O1", "R22 STUTTER-FREE", bf, "the path is rebuilt by following parent edges back to the source through the edge's own tail, with a length bound", "e = parent_edge[node]" in bt and "node = edge_from[e]" in bt and "while node != source" in bt and "len(path) > len(nodes)" in bt, "", node=bf.node)
    w = [n for n in own_nodes(f.node) if isinstance(n, ast.While)]
    ctx.require(len(w) == 1, "main loop of min_cost_flow not found")
    w = w[0]
    ctx.ob("C09-O1", "R2 loop test", f, "main loop runs while routed flow < demand", ast.unparse(w.test) == "total_flow < demand", ast.unparse(w.test), node=w)
    init = [x for x in w.body if isinstance(x, ast.Assign) and ast.unparse(x.targets[0]) == "path_flow"]
    ctx.ob("C09-O1", "R30 ACCUMULATOR-PAIRING", f, "bottleneck starts at the missing amount (never overshoots the demand) and is the minimum residual capacity along the path", len(init) == 1 and ast.unparse(init[0].value) == "demand - total_flow" and "path_flow = min(path_flow, edge_cap[e])" in ast.unparse(w), "", node=w)
    # O2 augmentation: capacity moves from the edge to its partner, each unit priced at the edge it uses
    aug = [n for n in w.body if isinstance(n, ast.For) and any(isinstance(x, ast.AugAssign) and ast.unparse(x.target) == "total_cost" for x in ast.walk(n))]
    ok = len(aug) == 1 and ast.unparse(aug[0].iter) == "path"
    stmts_ = [ast.unparse(x) for x in aug[0].body] if aug else []
    ok = ok and sorted(stmts_) == sorted(["edge_cap[e] -= path_flow", "edge_cap[e ^ 1] += path_flow", "total_cost += edge_cost[e] * path_flow"])
    ctx.ob("C09-O2", "R30 ACCUMULATOR-PAIRING", f, "augmentation moves the amount from each path edge to its partner and pays that edge's cost for it, in one block", ok, "; ".join(stmts_), node=aug[0] if aug else w)
    acc = [x for x in w.body if isinstance(x, ast.AugAssign) and ast.unparse(x.target) == "total_flow"]
    ctx.ob("C09-O2", "R30 ACCUMULATOR-PAIRING", f, "routed flow grows by the bottleneck once per path", len(acc) == 1 and ast.unparse(acc[0].value) == "path_flow", "", node=w)
    n_pairs = 2
    ctx.floor("flow increments in min_cost_flow", n_pairs, 2)
    # O3 verdicts
    cfg = cfg_of(f.node)
    gv = GuardView(cfg)
    for k, s in enumerate(result_sites(f)):
        at = gv.guard_atoms(s.node)
        if "INFEASIBLE" in s.statuses:
            ctx.ob("C09-O3", "R1 STATUS-GUARD", f, f"Result#{k} INFEASIBLE only when no augmenting path exists", "path is None" in at, f"{sorted(at)}", node=s.call)
        else:
            ok = ast.unparse(s.arg("objective")) == "total_cost" and atom_of("total_flow >= demand") in at
            ctx.ob("C09-O3", "R1 STATUS-GUARD", f, f"Result#{k} success only after the demand is routed; objective is the accumulated cost", ok, f"{sorted(at)}", node=s.call)
    ns = ctx.func("network_simplex", "network_simplex")
    ncfg = cfg_of(ns.node)
    ngv = GuardView(ncfg)
    sites = result_sites(ns)
    ctx.floor("Result sites in network_simplex", len(sites), 5)
    for k, s in enumerate(sites):
        at = ngv.guard_atoms(s.node, stable_only=False)
        if "INFEASIBLE" in s.statuses:
            ok = atom_of("abs(sum(supplies)) > 1e-09") in at or ("F:arcs" in at and "F:all((abs(s) < 1e-09 for s in supplies))" in at) or atom_of("flow[arc] > 0") in at
            ctx.ob("C09-O3", "R1 STATUS-GUARD", ns, f"Result#{k} INFEASIBLE only under unbalanced supplies or an artificial arc carrying flow", ok, f"{sorted(at)[:4]}", node=s.call)
            if atom_of("flow[arc] > 0") in at:
                loop = s.node.loop
                ctx.ob("C09-O3", "R1 STATUS-GUARD", ns, "artificial-flow test ranges over exactly the artificial arcs", loop is not None and loop.kind == "for" and ast.unparse(loop.ast.iter) == "range(m, total_arcs)", "", node=s.call)
    bm = [n.value for n in own_nodes(ns.node) if isinstance(n, ast.Assign) and ast.unparse(n.targets[0]) == "big_m"]
    okm = len(bm) == 1
    if okm:
        txt = ast.unparse(bm[0])
        agg = [c for c in ast.walk(bm[0]) if isinstance(c, ast.Call) and ast.unparse(c.func) in ("sum", "max")]
        okm = bool(agg) and all("abs(" in ast.unparse(c) for c in agg) and "* n" in txt.replace("(", " ").replace(")", " ") + " " and txt.rstrip().endswith("+ 1") and "range(m)" in txt
    ctx.ob("C09-O3", "R1 STATUS-GUARD", ns, "big-M is built from the absolute values of all arc costs, times the node count, plus one (dominates every real route whatever the signs)", okm, ast.unparse(bm[0]) if bm else "", node=ns.node)
    tc = [n for n in own_nodes(ns.node) if isinstance(n, ast.Assign) and ast.unparse(n.targets[0]) == "total_cost"]
    ctx.ob("C09-O3", "R5 PAIRING", ns, "cost is summed over the original arcs only", len(tc) == 1 and ast.unparse(tc[0].value) in ("sum((flow[i] * cost[i] for i in range(m)))", "sum((cost[i] * flow[i] for i in range(m)))"), "", node=ns.node)
    # O6 tree update: the subtree cut off by the leaving arc is re-rooted at the entering arc's endpoint inside it
    # (stem reversed) and hung below the other endpoint through the entering arc; depths / potentials are refreshed
    ncfg2 = cfg_of(ns.node)
    stem = [n for n in own_nodes(ns.node) if isinstance(n, ast.While) and n not in ns.node.body and any(isinstance(a_, ast.Assign) and "parent[node]" in ast.unparse(a_.targets[0]) for a_ in ast.walk(n))]
    ok = len(stem) == 1
    t_ns = ast.unparse(ns.node)
    if ok:
        st = ast.unparse(stem[0])
        ok = "old_parent, old_pred = (parent[node], pred[node])" in st and "parent[node], pred[node] = (new_parent, new_pred)" in st and "if old_pred == leaving:" in st and "node, new_parent, new_pred = (old_parent, node, old_pred)" in st
        ok = ok and "inside, outside = (first, second) if leaving_first else (second, first)" in t_ns and "node, new_parent, new_pred = (inside, outside, entering)" in t_ns
    ctx.ob("C09-O6", "R16 PAIRED-EFFECTS", ns, "after a pivot the cut subtree is re-hung at the entering arc's endpoint: the stem from that endpoint to the old subtree root is reversed, starting with (endpoint inside -> endpoint outside, entering arc)", ok, "attaching the tail of the leaving arc instead describes a tree that does not exist unless the two arcs are adjacent", node=stem[0] if stem else ns.node)
    refresh = [ncfg2.stmt_node_containing(n) for n in own_nodes(ns.node) if isinstance(n, ast.Call) and ast.unparse(n.func) == "_refresh_tree"]
    ok = len(refresh) == 1 and bool(stem) and ncfg2.dominates(ncfg2.stmt_node_containing(stem[0].test), refresh[0])
    if ok:
        at = GuardView(ncfg2).guard_atoms(refresh[0])
        ok = atom_of("leaving != entering") in at
    ctx.ob("C09-O6", "R16 dirty->clean", ns, "every change of the tree is followed by a refresh of depths and potentials before the next pricing round", ok, "", node=ns.node)
    rf_ = ctx.func("network_simplex", "_refresh_tree")
    tr_ = ast.unparse(rf_.node)
    ctx.ob("C09-O6", "R18 table", rf_, "refresh recomputes depth = parent's + 1 and the potential that gives the tree arc zero reduced cost, for every node below the root", "depth[node] = depth[p] + 1" in tr_ and "pi[node] = pi[p] + cost[arc]" in tr_ and "pi[node] = pi[p] - cost[arc]" in tr_ and "if source[arc] == node:" in tr_ and "children[parent[node]].append(node)" in tr_, "", node=rf_.node)
    forced = [n for n in own_nodes(ns.node) if isinstance(n, ast.Assign) and ast.unparse(n) == "state[pred[node]] = 0"]
    ctx.ob("C09-O6", "R27 WRITE-OWNERSHIP", ns, "tree arcs are kept basic whatever their flow (initially and after every recomputation of the arc states)", len(forced) == 2, f"{len(forced)} sites", node=ns.node)
    # status 0 ("basic") is written only to tree arcs: pred[node], the flow-based recomputation (followed by the forcing), or
    # the entering arc of a pivot in which another arc leaves
    for n in own_nodes(ns.node):
        if isinstance(n, ast.Assign) and ast.unparse(n.targets[0]).startswith("state[") and ast.unparse(n.value) == "0":
            x = ast.unparse(n.targets[0].slice)
            nn = ncfg2.node_of(n)
            lp = nn.loop
            in_recompute = lp is not None and lp.kind == "for" and ast.unparse(lp.ast.iter) == "range(total_arcs)" and ast.unparse(lp.ast.target) == x
            okb = x.startswith("pred[") or in_recompute or (x == "entering" and atom_of("leaving != entering") in GuardView(ncfg2).guard_atoms(nn, stable_only=False))
            ctx.ob("C09-O6", "R27 WRITE-OWNERSHIP", ns, f"`{ast.unparse(n)}` marks a tree arc", okb, "in a bound flip the entering arc is also the leaving arc and stays outside the tree: marked basic it is never priced again and its flow can never be taken back", node=n)
    recompute = [n for n in own_nodes(ns.node) if isinstance(n, ast.For) and ast.unparse(n.iter) == "range(total_arcs)" and "state[arc] = 1" in ast.unparse(n)]
    ok = bool(recompute) and all(any(ncfg2.dominates(ncfg2.stmt_node_containing(r_.iter), ncfg2.node_of(f_)) and ncfg2.node_of(f_).loop is not ncfg2.stmt_node_containing(r_.iter) for f_ in forced) for r_ in recompute)
    ctx.ob("C09-O6", "R27 WRITE-OWNERSHIP", ns, "each flow-based recomputation of the arc states is followed by forcing the tree arcs basic", ok, "", node=ns.node)
    # trivial cases, arc states, result dictionary
    for k, s_ in enumerate(sites):
        at = ngv.guard_atoms(s_.node, stable_only=False)
        if "INFEASIBLE" not in s_.statuses and ast.unparse(s_.arg("solution")) == "{}":
            ctx.ob("C09-O3", "R1 STATUS-GUARD", ns, "the empty flow is published only when there is no arc and no node has an imbalance", "F:arcs" in at and "T:all((abs(s) < 1e-09 for s in supplies))" in at, f"{sorted(at)[:4]}", node=s_.call)
    three = "if flow[arc] == 0:\n            state[arc] = 1\n        elif flow[arc] == cap[arc]:\n            state[arc] = -1\n        else:\n            state[arc] = 0"
    tns0 = ast.unparse(ns.node)
    ctx.ob("C09-O6", "R18 table", ns, "arc states are derived from the flow at both sites: lower bound -> 1, upper bound -> -1, strictly between -> basic", tns0.count(three) + tns0.count(three.replace("\n        ", "\n            ").replace("if flow[arc] == 0:\n    ", "if flow[arc] == 0:\n        ")) >= 2 or tns0.count("state[arc] = 1") == 2 and tns0.count("state[arc] = -1") == 2 and tns0.count("elif flow[arc] == cap[arc]:") == 2 and tns0.count("if flow[arc] == 0:") == 2, "", node=ns.node)
    ctx.ob("C09-O5", "R18 SIBLING-AGREEMENT (policy)", ns, "the result dictionary holds exactly the original arcs with positive flow", "for i in range(m):\n        if flow[i] > 0:\n            key = (source[i], target[i])\n            flow_dict[key] = flow_dict.get(key, 0) + flow[i]" in tns0, "", node=ns.node)
    ctx.ob("C09-O6", "R18 table", ns, "the root has no parent and depth 0", "parent[root] = -1" in tns0 and "depth[root] = 0" in tns0, "", node=ns.node)
    ctx.ob("C09-O6", "R18 table", rf_, "the refresh visits the whole tree (every child is pushed)", "stack = [root]" in tr_ and "while stack:\n        p = stack.pop()" in tr_ and "stack.append(node)" in tr_, "", node=rf_.node)
    # min_cost_flow: node universe, source distance, path reconstruction, assignment extraction
    ft = ast.unparse(f.node)
    ctx.ob("C09-O1", "R18 table", f, "the node set holds every tail and every head of the input", "for u in graph:\n        nodes.add(u)\n        for v, cap, c in graph[u]:\n            nodes.add(v)" in ft, "", node=f.node)
    ctx.ob("C09-O1", "R21 search discipline", bf, "the search starts with distance 0 at the source and infinity elsewhere; a round without update ends it", "dist = {n: float('inf') for n in nodes}" in bt and "dist[source] = 0" in bt and "updated = False" in bt and "updated = True" in bt and "if not updated:\n            break" in bt, "", node=bf.node)
    ctx.ob("C09-O1", "R22 STUTTER-FREE", bf, "an unreachable sink gives no path; the path lists the parent edges from the sink back to the source, reversed", "if sink not in dist or dist[sink] == float('inf'):\n        return None" in bt and "path = []\n    node = sink" in bt and "path.append(e)" in bt and "path.reverse()\n    return path" in bt and "if len(path) > len(nodes):\n            return None" in bt, "", node=bf.node)
    sa_ = ctx.func("flow", "solve_assignment")
    tsa = ast.unparse(sa_.node)
    ctx.ob("C09-O4", "R18 table", sa_, "the assignment is read off the unit flows on row->column arcs", "if f > 0 and u.startswith('L') and v.startswith('R'):\n            i = int(u[1:])\n            j = int(v[1:])\n            assignment[i] = j" in tsa and "assignment = [-1] * n" in tsa, "", node=sa_.node)

    ctx.floor("Result sites in min_cost_flow", len(result_sites(f)), 2)
    piv = [n for n in own_nodes(ns.node) if isinstance(n, ast.While) and "max_iter" in names_in(n.test)]
    ctx.ob("C09-O3", "R2 BUDGET-EXIT", ns, "the pivot loop runs while the iteration budget lasts and counts every round", len(piv) == 1 and ast.unparse(piv[0].test) == "iterations < max_iter" and ast.unparse(piv[0].body[0]) == "iterations += 1", "", node=piv[0] if piv else ns.node)
    # a budget exit proves nothing: every verdict after the pivot loop (OPTIMAL, and INFEASIBLE from loaded artificial
    # arcs) is given only when a pricing round found no entering arc
    conv_sets = [n for n in own_nodes(ns.node) if isinstance(n, ast.Assign) and ast.unparse(n.targets[0]) == "converged"]
    conv_true = [n for n in conv_sets if ast.unparse(n.value) == "True"]
    okc = len(conv_sets) == 2 and len(conv_true) == 1
    if okc:
        at = ngv.guard_atoms(ncfg.node_of(conv_true[0]), stable_only=False)
        okc = atom_of("entering == -1") in at and piv and ncfg.node_of(conv_true[0]).loop is not None
    ctx.ob("C09-O3", "R2 BUDGET-EXIT", ns, "the convergence flag starts false and is raised only by a pricing round without entering arc", bool(okc), f"{[ast.unparse(c) for c in conv_sets]}", node=conv_true[0] if conv_true else ns.node)
    loop_node = ncfg.stmt_node_containing(piv[0].test) if piv else None
    for k, s in enumerate(sites):
        if loop_node is None or not ncfg.dominates(loop_node, s.node):
            continue
        at = ngv.guard_atoms(s.node, stable_only=False)
        if "MAX_ITER" in s.statuses:
            ctx.ob("C09-O3", "R2 BUDGET-EXIT", ns, f"Result#{k} MAX_ITER exactly when the flag is down", "F:converged" in at and ast.unparse(s.arg("solution")) == "None", f"{sorted(at)[:4]}", node=s.call)
        else:
            ctx.ob("C09-O3", "R2 BUDGET-EXIT", ns, f"Result#{k} ({'/'.join(sorted(s.statuses))}) is given only after a pricing round proved optimality", "T:converged" in at, f"{sorted(at)[:5]}: when the pivot budget runs out the flow at hand is unproven - with artificial arcs still loaded a feasible instance would be called INFEASIBLE, otherwise a non-minimal cost OPTIMAL", node=s.call)
    # ---- O7 pivot mechanics of the network simplex
    tns = ast.unparse(ns.node)
    # arc table: a faithful copy of the input, artificial arcs mirrored by the sign of the supply
    ctx.ob("C09-O7", "R17 PARAM-IMMUTABLE", ns, "arc arrays are sized for the original and the artificial arcs and copy (tail, head, capacity, cost) of every input arc", all(f"{a} = [{z}] * (m + n)" in tns for a, z in (("source", "0"), ("target", "0"), ("cap", "0"), ("cost", "0.0"), ("flow", "0"))) and "for i, (u, v, c, w) in enumerate(arcs):\n        source[i] = u\n        target[i] = v\n        cap[i] = c\n        cost[i] = w" in tns, "", node=ns.node)
    # who writes the arc data: `cap`, `cost`, `source`, `target` get each cell once - the input arcs in the copy loop, the
    # artificial arcs in the set-up loop - and are read-only afterwards (a presolve that rewrites capacities or costs
    # solves another instance)
    for arr in ("cap", "cost", "source", "target"):
        ws = [n for n in own_nodes(ns.node) if isinstance(n, (ast.Assign, ast.AugAssign)) for t in (n.targets if isinstance(n, ast.Assign) else [n.target]) if isinstance(t, ast.Subscript) and isinstance(t.value, ast.Name) and t.value.id == arr]
        idx = sorted({ast.unparse((n.targets[0] if isinstance(n, ast.Assign) else n.target).slice) for n in ws})
        aug = [n for n in ws if isinstance(n, ast.AugAssign)]
        copy_loops = [l for l in own_nodes(ns.node) if isinstance(l, ast.For) and "arcs" in names_in(l.iter)]
        in_copy = {id(x) for l in copy_loops for x in ast.walk(l)}
        copy_w = [n for n in ws if isinstance(n, ast.Assign) and ast.unparse(n.targets[0].slice) == "i" and id(n) in in_copy]
        art_w = [n for n in ws if isinstance(n, ast.Assign) and ast.unparse(n.targets[0].slice) == "arc_id" and id(n) not in in_copy]
        ok = not aug and len(copy_w) == 1 and isinstance(copy_w[0].value, ast.Name) and len(copy_w) + len(art_w) == len(ws) and len(art_w) in (1, 2)
        badw = aug or [n for n in ws if n not in copy_w and n not in art_w] or copy_w[1:]
        ctx.ob("C09-O7", "R27 WRITE-OWNERSHIP", ns, f"`{arr}[..]` is written once per arc: the input arcs by the copy loop, the artificial arcs by the set-up loop", ok, f"`{ast.unparse(badw[0])[:50]}`: the arc data the pivots run on is no longer the caller's (a capacity clamped to the largest single supply is below what a trunk arc shared by two suppliers has to carry: INFEASIBLE or a dearer flow)" if badw else f"writes indexed {idx}", node=badw[0] if badw else ns.node)
    art = [n for n in own_nodes(ns.node) if isinstance(n, ast.If) and ast.unparse(n.test) == "supplies[i] >= 0"]
    ok = len(art) == 1
    if ok:
        pos = [ast.unparse(x) for x in art[0].body]
        neg = [ast.unparse(x) for x in art[0].orelse]
        mir = [x.replace("source[arc_id] = i", "\0S").replace("target[arc_id] = n", "target[arc_id] = i").replace("\0S", "source[arc_id] = n").replace("int(supplies[i])", "int(-supplies[i])") for x in pos]
        ok = pos == ["source[arc_id] = i", "target[arc_id] = n", "cap[arc_id] = int(supplies[i]) + 1", "flow[arc_id] = int(supplies[i])"] and neg == mir
        blk = _blk(ns.node, art[0])
        ok = ok and "cost[arc_id] = big_m" in [ast.unparse(x) for x in blk] and "arc_id = m + i" in [ast.unparse(x) for x in blk]
    ctx.ob("C09-O7", "R15 INVERSE-PAIR", ns, "each node gets one artificial arc to the root carrying its imbalance: out of the node for a supply, into it for a demand, cost big-M, spare capacity 1", ok, "", node=art[0] if art else ns.node)
    # reduced cost: one formula at both sites; pricing rule
    rcs = [n for n in own_nodes(ns.node) if isinstance(n, ast.Assign) and ast.unparse(n.targets[0]) == "rc"]
    ok = len(rcs) == 2 and all(ast.unparse(r.value) in ("cost[arc] - pi[u] + pi[v]", "cost[entering] - pi[u] + pi[v]") for r in rcs)
    for r in rcs:
        blk = _blk(ns.node, r)
        i = blk.index(r)
        ok = ok and i > 0 and ast.unparse(blk[i - 1]) in ("u, v = (source[arc], target[arc])", "u, v = (source[entering], target[entering])")
    ctx.ob("C09-O7", "R18 SIBLING-AGREEMENT (expression)", ns, "reduced cost = cost - pi[tail] + pi[head], the same at the pricing and at the pivot site", ok, "", node=rcs[0] if rcs else ns.node)
    pricing = "if state[arc] == 0:\n                continue" in tns and "if state[arc] == 1 and rc < best_cost:\n                best_cost = rc\n                entering = arc\n            elif state[arc] == -1 and -rc < best_cost:\n                best_cost = -rc\n                entering = arc" in tns and "entering = -1\n        best_cost = -1e-09" in tns and "if entering == -1:\n            converged = True\n            break" in tns
    ctx.ob("C09-O7", "R21 search discipline", ns, "pricing: a non-basic arc enters if raising it from its lower bound (rc < 0) or lowering it from its upper bound (rc > 0) pays; the most violating one is kept; no candidate -> optimal", pricing, "", node=ns.node)
    direction = "if rc < 0:\n            delta = cap[entering] - flow[entering]\n            first, second = (u, v)\n        else:\n            delta = flow[entering]\n            first, second = (v, u)" in tns and "if rc < 0:\n            flow[entering] += delta\n        else:\n            flow[entering] -= delta" in tns
    ctx.ob("C09-O7", "R4 SIGN-UNIT", ns, "the entering arc is pushed up to its spare capacity when rc < 0 and down to zero otherwise, and the cycle is traversed accordingly", direction, "", node=ns.node)
    # the two cycle halves: ratio test and augmentation are coherent and mirror each other
    walks = [n for n in own_nodes(ns.node) if isinstance(n, ast.While) and ast.unparse(n.test) == "node != join"]
    walks.sort(key=lambda n: n.lineno)
    ok = len(walks) == 4
    why = f"{len(walks)} walks towards the join"
    if ok:
        for k, w in enumerate(walks):
            blk = _blk(ns.node, w)
            i = blk.index(w)
            start = ast.unparse(blk[i - 1]) if i > 0 else ""
            body = [ast.unparse(x) for x in w.body]
            half = "first" if k % 2 == 0 else "second"
            if start != f"node = {half}" or body[0] != "arc = pred[node]" or body[-1] != "node = parent[node]":
                ok, why = False, f"walk {k} does not go from `{half}` up the tree arc by arc"
                continue
            if k < 2:
                at_node = "node" if half == "first" else "parent[node]"
                want = [f"d = _residual(arc, {at_node}, source, flow, cap)", f"if d < delta:\n    delta = d\n    leaving = arc\n    leaving_first = {'True' if half == 'first' else 'False'}"]
                if body[1:-1] != want:
                    ok, why = False, f"ratio test of the `{half}` half: {body[1:-1]}"
            else:
                minus, plus = ("flow[arc] -= delta", "flow[arc] += delta")
                want = f"if source[arc] == node:\n    {minus if half == 'first' else plus}\nelse:\n    {plus if half == 'first' else minus}"
                if body[1:-1] != [want]:
                    ok, why = False, f"augmentation of the `{half}` half: {body[1:-1]}"
    ctx.ob("C09-O7", "R15 INVERSE-PAIR", ns, "both cycle halves walk to the join; an arc's flow is lowered exactly where the ratio test took its flow as residual, and raised where it took the spare capacity; the two halves are mirror images", ok, why if not ok else "", node=walks[0] if walks else ns.node)
    ctx.ob("C09-O7", "R30 ACCUMULATOR-PAIRING", ns, "the ratio test starts from the entering arc's own room (a bound flip when nothing on the cycle is tighter)", "leaving = entering\n        leaving_first = True" in tns and "if delta == 0 and leaving == entering:\n            state[entering] = -state[entering]\n            continue" in tns, "", node=ns.node)
    rs_ = ctx.func("network_simplex", "_residual")
    fj = ctx.func("network_simplex", "_find_join")
    ctx.ob("C09-O7", "R18 table", rs_, "residual seen from a node: the flow of an arc leaving it, the spare capacity of an arc entering it", "if source[arc] == node:\n        return flow[arc]\n    return cap[arc] - flow[arc]" in ast.unparse(rs_.node), "", node=rs_.node)
    ctx.ob("C09-O7", "R18 table", fj, "the join is found by lifting the deeper of the two nodes until they meet", "while u != v:\n        if depth[u] > depth[v]:\n            u = parent[u]\n        else:\n            v = parent[v]\n    return u" in ast.unparse(fj.node), "", node=fj.node)
    ctx.ob("C09-O7", "R18 SIBLING-AGREEMENT (expression)", ns, "initial potentials follow the rule of _refresh_tree (zero reduced cost on tree arcs)", "if source[arc] == i:\n            pi[i] = pi[root] + cost[arc]\n        else:\n            pi[i] = pi[root] - cost[arc]" in tns and "parent = [root] * total_nodes" in tns and "pred = list(range(m, m + n)) + [-1]" in tns, "", node=ns.node)
    ctx.note("network_simplex: the pivot loop's max_iter exit reaches the same exact verdicts as convergence (default budget 10^6, no input inside the property's quantifier reaches it) - information only")
    # O4 assignment wiring
    sa = ctx.func("flow", "solve_assignment")
    t = ast.unparse(sa.node)
    ok = "graph[source].append((f'L{i}', 1, 0))" in t and "graph[f'L{i}'].append((f'R{j}', 1, cost_matrix[i][j]))" in t and "graph[f'R{j}'].append((sink, 1, 0))" in t
    ctx.ob("C09-O4", "R18 table", sa, "assignment network: unit capacities, row->column arcs carry the matrix cost, source/sink arcs cost 0", ok, "", node=sa.node)
    ctx.ob("C09-O4", "R18 table", sa, "demand is min(rows, columns)", "min_cost_flow(graph, source, sink, min(n, m))" in t, "", node=sa.node)
    for s in result_sites(sa):
        ok = ast.unparse(s.arg("objective")) == "result.objective" and ast.unparse(s.arg("status")) == "result.status"
        ctx.ob("C09-O4", "R3 STATUS-USE", sa, "status and objective of the flow solve are forwarded unchanged", ok, "", node=s.call)
    # O5 storage discipline
    fd = [n for n in own_nodes(ns.node) if isinstance(n, (ast.Assign, ast.AnnAssign)) and ast.unparse(n.targets[0] if isinstance(n, ast.Assign) else n.target) == "flow_dict"]
    ctx.require(len(fd) >= 1, "flow_dict construction not found in network_simplex")
    plain = [n for n in fd if isinstance(n.value, ast.DictComp)]
    accum = any(isinstance(n, ast.Assign) and ast.unparse(n.targets[0]).startswith("flow_dict[") and "flow_dict.get(" in ast.unparse(n.value) for n in own_nodes(ns.node)) or any(isinstance(n, ast.AugAssign) and ast.unparse(n.target).startswith("flow_dict[") for n in own_nodes(ns.node))
    ctx.ob("C09-O5", "R18 SIBLING-AGREEMENT (policy)", ns, "result dictionary pools parallel arcs (keys are (source, target) pairs)", accum and not plain, "a comprehension keyed by (source, target) keeps only the last of several parallel arcs", node=fd[0])
    # min_cost_flow: per-arc storage, pooled only in the returned dictionary
    keyed_by_pair = [n for n in own_nodes(f.node) if isinstance(n, (ast.Assign, ast.AugAssign)) and isinstance((n.targets[0] if isinstance(n, ast.Assign) else n.target), ast.Subscript) and isinstance((n.targets[0] if isinstance(n, ast.Assign) else n.target).value, ast.Subscript) and ast.unparse((n.targets[0] if isinstance(n, ast.Assign) else n.target).value.value) in ("capacity", "cost", "cap", "edge_cost_by_pair")]
    ctx.ob("C09-O5", "R27 WRITE-OWNERSHIP", f, "capacities and costs are stored per arc, not per ordered node pair", not keyed_by_pair, "a table keyed by (u, v) cannot keep two parallel arcs with different costs apart, and shares a cell between an arc and the residual of the opposite arc", node=keyed_by_pair[0] if keyed_by_pair else f.node)
    out = [n for n in own_nodes(f.node) if isinstance(n, ast.Assign) and ast.unparse(n.targets[0]) == "flows[key]"]
    ok = len(out) == 1 and ast.unparse(out[0].value) == "flows.get(key, 0) + edge_cap[e ^ 1]" and "for e in range(0, len(edge_to), 2)" in t_mcf and "key = (edge_from[e], edge_to[e])" in t_mcf
    if ok:
        mcfg = cfg_of(f.node)
        at = GuardView(mcfg).guard_atoms(mcfg.node_of(out[0]))
        ok = atom_of("edge_cap[e ^ 1] > 0") in at
    ctx.ob("C09-O5", "R18 SIBLING-AGREEMENT (policy)", f, "returned flow of an arc = capacity accumulated on its backward partner; parallel arcs are pooled by accumulation, zero flows left out", ok, "", node=out[0] if out else f.node)


def _block_of(fn_node, stmt):
    for n in ast.walk(fn_node):
        for fld in ("body", "orelse"):
            b = getattr(n, fld, None)
            if isinstance(b, list) and any(s is stmt for s in b):
                return b
    return []


# ---------------------------------------------------------------------------------------------
from sa import mutate as M  # noqa: E402

FL, NS = "solvor/flow.py", "solvor/network_simplex.py"


def _v_flowdict_comprehension(tree):
    g = M.find_func(tree, "network_simplex")
    M.replace_stmt(g, lambda s: isinstance(s, ast.For) and M.src_has(s, "flow_dict.get("), [])
    M.replace_stmt(g, lambda s: isinstance(s, ast.AnnAssign) and M.src_has(s.target, "flow_dict"), M.stmts("flow_dict = {(source[i], target[i]): flow[i] for i in range(m) if flow[i] > 0}"))


def _v_cost_includes_artificial(tree):
    g = M.find_func(tree, "network_simplex")
    M.replace_expr(g, lambda e: M.src_is(e, "sum((flow[i] * cost[i] for i in range(m)))"), M.expr("sum((flow[i] * cost[i] for i in range(total_arcs)))"))


def _v_artificial_range(tree):
    g = M.find_func(tree, "network_simplex")
    M.replace_expr(g, lambda e: M.src_is(e, "range(m, total_arcs)"), M.expr("range(m + 1, total_arcs)"))


def _v_overshoot(tree):
    g = M.find_func(tree, "min_cost_flow")
    M.replace_stmt(g, lambda s: M.src_is(s, "path_flow = demand - total_flow"), M.stmts("path_flow = float('inf')"))


def _v_cost_unpaired(tree):
    g = M.find_func(tree, "min_cost_flow")
    M.replace_stmt(g, lambda s: M.src_is(s, "total_cost += edge_cost[e] * path_flow"), [])


def _v_no_backward_edges(tree):
    g = M.find_func(tree, "min_cost_flow.bellman_ford")
    M.replace_stmt(g, lambda s: M.src_is(s, "v = edge_to[e]"), M.stmts("if e % 2:\n    continue\nv = edge_to[e]"))


def _v_backward_not_registered(tree):
    g = M.find_func(tree, "min_cost_flow")
    M.replace_stmt(g, lambda s: M.src_is(s, "adj[v].append(len(edge_to))"), [])


def _v_pair_tables(tree):
    g = M.find_func(tree, "min_cost_flow")
    M.replace_stmt(g, lambda s: M.src_is(s, "edge_cost.append(c)"), M.stmts("edge_cost.append(c)\ncost[u][v] = min(cost[u][v], c)"))
    M.replace_stmt(g, lambda s: M.src_is(s, "nodes = set()"), M.stmts("nodes = set()\ncost = defaultdict(lambda: defaultdict(lambda: float('inf')))"))


def _v_hang_leaving_node(tree):
    g = M.find_func(tree, "network_simplex")
    M.replace_stmt(g, lambda s: isinstance(s, ast.While) and M.src_has(s, "old_parent, old_pred"), M.stmts("leaving_node = inside\nwhile pred[leaving_node] != leaving:\n    leaving_node = parent[leaving_node]\nparent[leaving_node] = outside\npred[leaving_node] = entering"))


def _v_no_refresh(tree):
    g = M.find_func(tree, "network_simplex")
    M.replace_stmt(g, lambda s: M.src_has(s, "_refresh_tree(") and isinstance(s, ast.Expr), [])


def _v_tree_arcs_not_forced(tree):
    g = M.find_func(tree, "network_simplex")
    M.replace_stmt(g, lambda s: isinstance(s, ast.For) and M.src_has(s, "state[pred[node]] = 0"), [], count=2)


def _v_bigm_max(tree):
    g = M.find_func(tree, "network_simplex")
    M.replace_expr(g, lambda e: M.src_is(e, "sum((abs(cost[i]) for i in range(m))) * n + 1"), M.expr("max((cost[i] for i in range(m))) * n + 1"))


def _v_assignment_demand(tree):
    g = M.find_func(tree, "solve_assignment")
    M.replace_expr(g, lambda e: M.src_is(e, "min(n, m)"), M.expr("n"))


def _v_assignment_status(tree):
    g = M.find_func(tree, "solve_assignment")
    M.replace_expr(g, lambda e: M.src_is(e, "result.status"), M.expr("Status.OPTIMAL"))


def _v_infeasible_wrong(tree):
    g = M.find_func(tree, "min_cost_flow")
    M.replace_expr(g, lambda e: M.src_is(e, "path is None"), M.expr("path is None or path_cost > 0"))


def _v_ns_second_half_not_mirrored(tree):
    g = M.find_func(tree, "network_simplex")
    walks = sorted([n for n in ast.walk(g) if isinstance(n, ast.While) and M.src_is(n.test, "node != join")], key=lambda n: n.lineno)
    if len(walks) != 4:
        raise M.Skip("four cycle walks expected")
    M.replace_expr(walks[1], lambda e: M.src_is(e, "parent[node]") and True, M.expr("node"), count=1)


def _v_ns_pricing_wrong_bound(tree):
    g = M.find_func(tree, "network_simplex")
    M.replace_expr(g, lambda e: M.src_is(e, "state[arc] == -1 and -rc < best_cost"), M.expr("state[arc] == -1 and rc < best_cost"))


def _v_bf_bound_prune(tree):
    g = M.find_func(tree, "min_cost_flow.bellman_ford")
    M.replace_stmt(g, lambda s: isinstance(s, ast.For) and M.src_is(s.iter, "nodes") and M.src_has(s, "edge_cost"), lambda s: M.stmts("bound = dist.get(sink, float('inf'))") + [s])
    M.replace_expr(g, lambda e: M.src_is(e, "dist[u] == float('inf')"), M.expr("dist[u] == float('inf') or dist[u] >= bound"))


def _v_ns_local_state_update(tree):
    g = M.find_func(tree, "network_simplex")
    loops = [n for n in ast.walk(g) if isinstance(n, ast.For) and M.src_is(n.iter, "range(total_arcs)") and M.src_has(n, "state[arc] = 1")]
    if len(loops) < 2:
        raise M.Skip("post-pivot state recomputation not found")
    last = max(loops, key=lambda n: n.lineno)
    M.replace_stmt(g, lambda s: s is last, M.stmts("state[leaving] = 1 if flow[leaving] == 0 else -1\nstate[entering] = 0"))


def _t_reformat(tree):
    pass


def _v_budget_exit_falls_through(tree):
    g = M.find_func(tree, "network_simplex")
    M.replace_stmt(g, lambda s: isinstance(s, ast.If) and M.src_is(s.test, "not converged"), [])


def _v_capacity_clamp_presolve(tree):
    g = M.find_func(tree, "network_simplex")
    M.insert(g, "big_m = ", "flow_bound = int(max(abs(s) for s in supplies))\nfor i in range(m):\n    if cap[i] > flow_bound:\n        cap[i] = flow_bound")


def _v_float_potentials(tree):
    g = M.find_func(tree, "network_simplex")
    M.replace_stmt(g, lambda s: M.src_is(s, "pi = [0] * total_nodes"), M.stmts("pi = [0.0] * total_nodes"))


def _v_negative_demand_accepted(tree):
    g = M.find_func(tree, "min_cost_flow")
    M.replace_stmt(g, lambda s: isinstance(s, ast.If) and M.src_is(s.test, "demand < 0"), [])


VARIANTS = [
    M.Variant("network_simplex keeps float potentials (original defect, ledger row 65)", NS, _v_float_potentials, "C09-O7"),
    M.Variant("min_cost_flow accepts a negative demand (original defect, ledger row 66)", FL, _v_negative_demand_accepted, "C09-O1"),
    M.Variant("network_simplex clamps capacities to the largest single supply (seed C09-R)", NS, _v_capacity_clamp_presolve, "C09-O7"),
    M.Variant("network_simplex falls through to its verdicts when the pivot budget runs out (original defect)", NS, _v_budget_exit_falls_through, "C09-O3"),
    M.Variant("network_simplex keeps the last parallel arc only (original defect)", NS, _v_flowdict_comprehension, "C09-O5"),
    M.Variant("network_simplex cost includes artificial arcs", NS, _v_cost_includes_artificial, "C09-O3"),
    M.Variant("artificial-flow test skips the first artificial arc", NS, _v_artificial_range, "C09-O3"),
    M.Variant("min_cost_flow bottleneck can overshoot the demand", FL, _v_overshoot, "C09-O1"),
    M.Variant("forward push without cost update", FL, _v_cost_unpaired, "C09-O2"),
    M.Variant("path search ignores backward residual edges (seed C09-A, re-created on the repaired solver)", FL, _v_no_backward_edges, "C09-O1"),
    M.Variant("backward edges not registered in the adjacency", FL, _v_backward_not_registered, "C09-O1"),
    M.Variant("a cost table keyed by node pair creeps back in (original defect)", FL, _v_pair_tables, "C09-O5"),
    M.Variant("big-M from the largest signed cost (seed C09-B)", NS, _v_bigm_max, "C09-O3"),
    M.Variant("cut subtree hung at the tail of the leaving arc (original defect)", NS, _v_hang_leaving_node, "C09-O6"),
    M.Variant("tree changed without refreshing depths / potentials", NS, _v_no_refresh, "C09-O6"),
    M.Variant("arc states recomputed from flows without forcing tree arcs basic (original defect)", NS, _v_tree_arcs_not_forced, "C09-O6"),
    M.Variant("assignment demand = number of rows", FL, _v_assignment_demand, "C09-O4"),
    M.Variant("assignment hides the flow status", FL, _v_assignment_status, "C09-O4"),
    M.Variant("INFEASIBLE also when the path is expensive", FL, _v_infeasible_wrong, "C09-O3"),
    M.Variant("Bellman-Ford skips nodes no closer than the sink (seed C09-C)", FL, _v_bf_bound_prune, "C09-O1"),
    M.Variant("network simplex updates only the leaving and entering arc states (seed C09-D)", NS, _v_ns_local_state_update, "C09-O6"),
    M.Variant("ratio test of the second cycle half takes the residual from the wrong end", NS, _v_ns_second_half_not_mirrored, "C09-O7"),
    M.Variant("pricing treats arcs at their upper bound like arcs at their lower bound", NS, _v_ns_pricing_wrong_bound, "C09-O7"),
    M.Variant("twin: reformat flow", FL, _t_reformat, None),
    M.Variant("twin: reformat network simplex", NS, _t_reformat, None),
]
