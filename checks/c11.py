"""C11 - shortest-path solvers (structural part)."""

from __future__ import annotations

import ast

from sa.cfg import cfg_of
from sa.facts import canon, result_sites
from sa.guards import atoms as _atoms
from sa.guards import GuardView, atom_of, names_in
from sa.index import own_nodes
from sa.report import Ctx

from .common import generic_sweeps

from .graph_common import edge_wrapper_adjacency, edge_wrapper_returns_generic
from .sat_common import _enclosing_block

EXPLANATION = (
    "Decides structural necessary conditions of 'true shortest distances and real paths': (O1) best-first discipline "
    "in dijkstra / astar / the all-distances loop of dijkstra_edges - the success return is guarded by the goal test "
    "applied to the node obtained from the heap pop, after the closed-set test and after closing it; the pushed key's "
    "g-component is the value stored in the distance map in the same block; distance and parent are written together "
    "under a strict improvement test; tentative distance = settled distance of the popped node + edge cost; (O2) "
    "verdict guards - INFEASIBLE only on frontier exhaustion with budget left, MAX_ITER only on budget, astar OPTIMAL "
    "only when weight == 1.0; (O3) BFS/DFS discipline - mark-on-enqueue in the same block as parent store and "
    "enqueue, FIFO pop for bfs (publishes OPTIMAL), LIFO pop for dfs (publishes FEASIBLE), objective = len(path) - 1; "
    "(O4) Bellman-Ford - at least n-1 relaxation rounds, a separate full detection pass with the same relax condition, "
    "UNBOUNDED only from the detection pass (or for a circular parent chain), INFEASIBLE only for an infinite target distance; (O5) Floyd-Warshall - "
    "the intermediate vertex of dist[i][k] + dist[k][j] is bound by the outermost loop, duplicate edges merge by min, "
    "UNBOUNDED only under a negative diagonal; (O6) grid - `auto` resolves to a heuristic admissible for the chosen "
    "move set, the diagonal multiplier is applied iff both deltas are non-zero, moves stay in bounds and off blocked "
    "cells; (O7) the returned path is reconstructed from the node whose distance is reported. NOT decided: exactness "
    "of distances, cross-solver agreement."
)


def _heap_pop_targets(f):
    out = {}
    for n in own_nodes(f.node):
        if isinstance(n, ast.Assign) and isinstance(n.value, ast.Call) and isinstance(n.value.func, ast.Name) and n.value.func.id == "heappop" and isinstance(n.targets[0], ast.Tuple):
            out[ast.unparse(n.value.args[0])] = [e.id for e in n.targets[0].elts if isinstance(e, ast.Name)]
    return out


def best_first(ctx: Ctx, f, astar: bool):
    cfg = cfg_of(f.node)
    gv = GuardView(cfg)
    pops = _heap_pop_targets(f)
    ctx.require(len(pops) == 1, f"heap pop with tuple unpacking not found once in {f.qualname}")
    heap, names = next(iter(pops.items()))
    cur = names[-1]
    sites = result_sites(f)
    succ = [s for s in sites if ast.unparse(s.arg("solution")) != "None"]
    ctx.require(len(succ) == 1, f"success publication not found once in {f.qualname}")
    s = succ[0]
    at = gv.guard_atoms(s.node, stable_only=False)
    ctx.ob("C11-O1", "R21 POP-TIME-GOAL", f, "success is decided by the goal test on the popped node", f"T:is_goal({cur})" in at, f"{sorted(at)}", node=s.call)
    ctx.ob("C11-O1", "R21 POP-TIME-GOAL", f, "goal test happens after the closed-set test", f"{cur} not in closed" in at, "", node=s.call)
    close = [cfg.stmt_node_containing(n) for n in own_nodes(f.node) if isinstance(n, ast.Call) and ast.unparse(n.func) == "closed.add" and ast.unparse(n.args[0]) == cur]
    ctx.ob("C11-O1", "R21 POP-TIME-GOAL", f, "the popped node is closed before it is expanded or reported", len(close) == 1 and cfg.dominates(close[0], s.node), "", node=s.call)
    # O7 pairing
    sol, obj = s.arg("solution"), s.arg("objective")
    pdefs = [d.value for d in own_nodes(f.node) if isinstance(d, ast.Assign) and isinstance(sol, ast.Name) and ast.unparse(d.targets[0]) == sol.id]
    ok = len(pdefs) == 1 and ast.unparse(pdefs[0]) == f"reconstruct_path(parent, {cur})" and ast.unparse(obj) == f"g[{cur}]"
    ctx.ob("C11-O7", "R5 PAIRING", f, "path is reconstructed from the node whose distance is reported", ok, f"solution `{ast.unparse(pdefs[0]) if pdefs else '?'}`, objective `{ast.unparse(obj)}`", node=s.call)
    # push block
    pushes = [n for n in own_nodes(f.node) if isinstance(n, ast.Call) and isinstance(n.func, ast.Name) and n.func.id == "heappush"]
    ctx.require(len(pushes) == 1, f"one heappush expected in {f.qualname}")
    p = pushes[0]
    pn = cfg.stmt_node_containing(p)
    blk = _enclosing_block(f.node, pn.ast)
    key = p.args[1]
    nb = ast.unparse(key.elts[-1])
    gstore = [x for x in blk if isinstance(x, ast.Assign) and ast.unparse(x.targets[0]) == f"g[{nb}]"]
    pstore = [x for x in blk if isinstance(x, ast.Assign) and ast.unparse(x.targets[0]) == f"parent[{nb}]" and ast.unparse(x.value) == cur]
    ctx.ob("C11-O1", "R21 POP-TIME-GOAL", f, "distance and parent of the neighbour are written together, with the push", len(gstore) == 1 and len(pstore) == 1, "", node=p)
    if gstore:
        tg = ast.unparse(gstore[0].value)
        if astar:
            fdef = [x for x in blk if isinstance(x, ast.Assign) and ast.unparse(x.targets[0]) == ast.unparse(key.elts[0])]
            okk = len(fdef) == 1 and canon(fdef[0].value) == canon(ast.parse(f"{tg} + weight * heuristic({nb})", mode="eval").body) and ast.unparse(key.elts[1]) == f"-{tg}"
            ctx.ob("C11-O1", "R21 POP-TIME-GOAL", f, "heap key = (g + weight*h, -g, ...) with the g just stored (ties prefer larger g)", okk, ast.unparse(key), node=p)
        else:
            ctx.ob("C11-O1", "R21 POP-TIME-GOAL", f, "heap key's first component is the distance just stored", ast.unparse(key.elts[0]) == tg, ast.unparse(key), node=p)
        tdef = [x.value for x in own_nodes(f.node) if isinstance(x, ast.Assign) and ast.unparse(x.targets[0]) == tg]
        okt = len(tdef) == 1 and canon(tdef[0]) == canon(ast.parse(f"g[{cur}] + edge_cost", mode="eval").body)
        ctx.ob("C11-O1", "R21 POP-TIME-GOAL", f, "tentative distance = distance of the popped node + edge cost", okt, ast.unparse(tdef[0]) if tdef else "?", node=p)
        pat = gv.guard_atoms(pn, stable_only=False)
        ctx.ob("C11-O1", "R21 POP-TIME-GOAL", f, "update only on strict improvement, never for closed neighbours", atom_of(f"{tg} < g.get({nb}, float('inf'))") in pat and f"{nb} not in closed" in pat, f"{sorted(pat)[:6]}", node=p)
        edge_loop = pn.loop
        ctx.ob("C11-O1", "R21 POP-TIME-GOAL", f, "expansion iterates the neighbours of the popped node", edge_loop is not None and edge_loop.kind == "for" and ast.unparse(edge_loop.ast.iter) == f"neighbors({cur})", "", node=p)
    # O2 verdicts
    def _branches(site, base):
        """(status name, guard atoms) per way the site can publish: a status chosen by `A if test else B` - written in
        place or through a local assigned once - is read as two publications, each under its side of the test"""
        st_ = site.arg("status")
        if isinstance(st_, ast.Name):
            ds = [x.value for x in own_nodes(f.node) if isinstance(x, ast.Assign) and len(x.targets) == 1 and ast.unparse(x.targets[0]) == st_.id]
            st_ = ds[0] if len(ds) == 1 else st_
        if isinstance(st_, ast.IfExp) and all(isinstance(b, ast.Attribute) and ast.unparse(b.value) == "Status" for b in (st_.body, st_.orelse)):
            return [(st_.body.attr, set(base) | set(_atoms(st_.test, True))), (st_.orelse.attr, set(base) | set(_atoms(st_.test, False)))]
        return [(None, base)]

    for k, r in enumerate(sites):
        base_atoms = gv.guard_atoms(r.node)
        for only_, a2 in _branches(r, base_atoms) if {"INFEASIBLE", "MAX_ITER"} <= set(r.statuses) else [(None, base_atoms)]:
            sts = set(r.statuses) if only_ is None else {only_}
            if "INFEASIBLE" in sts:
                ctx.ob("C11-O2", "R2 BUDGET-EXIT", f, "INFEASIBLE only when the frontier ran out", (f"F:{heap}" in a2 or atom_of("iterations < max_iter") in a2) and r.node.loop is None, f"{sorted(a2)}", node=r.call)
            if "MAX_ITER" in sts:
                ctx.ob("C11-O2", "R1 STATUS-GUARD", f, "MAX_ITER only while a node still waits in the frontier", f"T:{heap}" in a2 and r.node.loop is None, f"{sorted(a2)}: told from INFEASIBLE by the counter alone, a search whose frontier ran empty on the last allowed iteration reports MAX_ITER for a goal it has shown to be unreachable (ledger row 79)", node=r.call)
                drains = [w for w in own_nodes(f.node) if isinstance(w, ast.While) and "max_iter" not in names_in(w.test)]
                last = len(key.elts) - 1
                okd = len(drains) == 1 and canon(drains[0].test) in {canon(ast.parse(f"{heap} and {heap}[0][{k_}] in closed", mode="eval").body) for k_ in (-1, last)} and [ast.unparse(x) for x in drains[0].body] == [f"heappop({heap})"] and not drains[0].orelse and cfg.dominates(cfg.stmt_node_containing(drains[0].test), r.node)
                ctx.ob("C11-O2", "R2 BUDGET-EXIT", f, "entries of closed nodes are dropped before the frontier is asked whether a node still waits", okd, f"{[ast.unparse(w.test) for w in drains]}: a heap holding only leftovers of closed nodes is an exhausted frontier, and counting them as waiting nodes reports MAX_ITER for a settled question", node=drains[0] if drains else r.call)
    if astar:
        st = s.arg("status")
        d = [x.value for x in own_nodes(f.node) if isinstance(st, ast.Name) and isinstance(x, ast.Assign) and ast.unparse(x.targets[0]) == st.id]
        ok = len(d) == 1 and isinstance(d[0], ast.IfExp) and ast.unparse(d[0].test) in ("weight == 1.0", "weight == 1", "1.0 == weight") and ast.unparse(d[0].body) == "Status.OPTIMAL" and ast.unparse(d[0].orelse) == "Status.FEASIBLE"
        ctx.ob("C11-O2", "R1 STATUS-GUARD", f, "astar claims OPTIMAL only for weight == 1.0", ok, "", node=s.call)
    else:
        ctx.ob("C11-O2", "R1 STATUS-GUARD", f, "dijkstra success is OPTIMAL (default status)", s.statuses == frozenset({"OPTIMAL"}), "", node=s.call)
    loop = [n for n in cfg.nodes if n.kind == "test" and n.note == "while" and "max_iter" in names_in(n.ast)]
    ctx.ob("C11-O2", "R2 BUDGET-EXIT", f, "search loop runs while the frontier is non-empty and budget remains", len(loop) == 1 and canon(loop[0].ast) == canon(ast.parse(f"{heap} and iterations < max_iter", mode="eval").body), "", node=f.node)


def check_all_distances(ctx: Ctx):
    f = ctx.func("dijkstra", "dijkstra_edges")
    cfg = cfg_of(f.node)
    gv = GuardView(cfg)
    pops = _heap_pop_targets(f)
    ctx.require(len(pops) == 1, "all-distances heap pop not found")
    d, u = next(iter(pops.values()))
    pushes = [n for n in own_nodes(f.node) if isinstance(n, ast.Call) and isinstance(n.func, ast.Name) and n.func.id == "heappush"]
    ctx.require(len(pushes) == 1, "all-distances heappush not found")
    p = pushes[0]
    pn = cfg.stmt_node_containing(p)
    at = gv.guard_atoms(pn, stable_only=False)
    blk = _enclosing_block(f.node, pn.ast)
    nd, v = ast.unparse(p.args[1].elts[0]), ast.unparse(p.args[1].elts[1])
    ctx.ob("C11-O1", "R21 POP-TIME-GOAL", f, "all-distances: stale heap entries are skipped", atom_of(f"{d} <= dist.get({u}, float('inf'))") in at, f"{sorted(at)}", node=p)
    ctx.ob("C11-O1", "R21 POP-TIME-GOAL", f, "all-distances: distance stored with the push, under strict improvement", any(ast.unparse(x) == f"dist[{v}] = {nd}" for x in blk) and atom_of(f"{nd} < dist.get({v}, float('inf'))") in at, "", node=p)
    tdef = [x.value for x in own_nodes(f.node) if isinstance(x, ast.Assign) and ast.unparse(x.targets[0]) == nd]
    ctx.ob("C11-O1", "R21 POP-TIME-GOAL", f, "all-distances: tentative distance = popped distance + edge weight", len(tdef) == 1 and canon(tdef[0]) == canon(ast.parse(f"{d} + w", mode="eval").body), "", node=p)
    adj = [n for n in own_nodes(f.node) if isinstance(n, ast.Call) and ast.unparse(n.func) == "adj[u].append"]
    ctx.ob("C11-O1", "R18 table", f, "adjacency keeps every (possibly duplicate) edge with its own weight", len(adj) == 1 and ast.unparse(adj[0].args[0]) == "(v, w)", "", node=f.node)
    # target mode delegates to dijkstra with the adjacency
    deleg = [n for n in own_nodes(f.node) if isinstance(n, ast.Return) and isinstance(n.value, ast.Call) and ast.unparse(n.value.func) == "dijkstra"]
    ctx.ob("C11-O1", "R18 table", f, "target mode delegates to dijkstra(source, target, adjacency)", len(deleg) == 1 and [ast.unparse(a) for a in deleg[0].value.args[:2]] == ["source", "target"], "", node=f.node)


def check_bfs_dfs(ctx: Ctx):
    for name, popper, status in (("bfs", "popleft", "OPTIMAL"), ("dfs", "pop", "FEASIBLE")):
        f = ctx.func("bfs", name)
        cfg = cfg_of(f.node)
        gv = GuardView(cfg)
        cont = "queue" if name == "bfs" else "stack"
        gd = [n for n in own_nodes(f.node) if isinstance(n, ast.Assign) and ast.unparse(n.targets[0]) == "is_goal"]
        okg = len(gd) == 1 and isinstance(gd[0].value, ast.IfExp)
        if okg:
            e = gd[0].value
            pos, neg = (e.body, e.orelse)
            tat = _atoms(e.test, True)
            if isinstance(e.orelse, ast.Lambda):  # written the other way round
                pos, neg, tat = e.orelse, e.body, _atoms(e.test, False)
            okg = isinstance(pos, ast.Lambda) and ast.unparse(pos.body) in ("s == goal", "goal == s") and ast.unparse(neg) == "goal" and tat == {"F:callable(goal)", "goal is not None"}
        ctx.ob("C11-O3", "R1 STATUS-GUARD", f, f"{name}: a goal given as a value becomes an equality test exactly when it is neither callable nor None", bool(okg), f"`{ast.unparse(gd[0])[:100] if gd else '?'}`: any other reading (truthiness, a type test) takes a legal goal state such as 0, () or '' for 'no goal', and the search returns the visited set instead of a path", node=gd[0] if gd else f.node)
        pops = [n for n in own_nodes(f.node) if isinstance(n, ast.Assign) and isinstance(n.value, ast.Call) and isinstance(n.value.func, ast.Attribute) and ast.unparse(n.value.func.value) == cont]
        ctx.require(len(pops) == 1, f"frontier pop not found in {name}")
        ctx.ob("C11-O3", "R21 search discipline", f, f"{name} pops the frontier with {popper}()", pops[0].value.func.attr == popper and not pops[0].value.args, ast.unparse(pops[0]), node=pops[0])
        cur = ast.unparse(pops[0].targets[0])
        marks = [n for n in own_nodes(f.node) if isinstance(n, ast.Call) and ast.unparse(n.func) == "visited.add"]
        ctx.require(len(marks) == 1, f"mark site not found in {name}")
        mn = cfg.stmt_node_containing(marks[0])
        blk = _enclosing_block(f.node, mn.ast)
        nb = ast.unparse(marks[0].args[0])
        ok = any(ast.unparse(x) == f"parent[{nb}] = {cur}" for x in blk) and any(ast.unparse(x) == f"{cont}.append({nb})" for x in blk)
        at = gv.guard_atoms(mn, stable_only=False)
        ctx.ob("C11-O3", "R21 search discipline", f, "mark-on-enqueue: visited, parent and frontier are updated in one block for unvisited neighbours only", ok and f"{nb} not in visited" in at, "", node=marks[0])
        for s in result_sites(f):
            if ast.unparse(s.arg("solution")) == "path":
                a2 = gv.guard_atoms(s.node, stable_only=False)
                ctx.ob("C11-O3", "R1 STATUS-GUARD", f, f"{name} publishes {status} for a found path, decided by the goal test on the popped node", s.statuses == frozenset({status}) and f"T:is_goal({cur})" in a2, f"{sorted(s.statuses)}", node=s.call)
                pd = [d.value for d in own_nodes(f.node) if isinstance(d, ast.Assign) and ast.unparse(d.targets[0]) == "path"]
                ctx.ob("C11-O7", "R5 PAIRING", f, "objective = number of edges of the returned path, reconstructed from the popped node", len(pd) == 1 and ast.unparse(pd[0]) == f"reconstruct_path(parent, {cur})" and ast.unparse(s.arg("objective")) == "len(path) - 1", "", node=s.call)
            if ast.unparse(s.arg("solution")) == "visited":
                st = s.arg("status")
                okv = isinstance(st, ast.IfExp) and ((ast.unparse(st.test) == f"not {cont}" and ast.unparse(st.body) == "Status.OPTIMAL" and ast.unparse(st.orelse) == "Status.MAX_ITER") or (ast.unparse(st.test) == cont and ast.unparse(st.orelse) == "Status.OPTIMAL" and ast.unparse(st.body) == "Status.MAX_ITER"))
                ctx.ob("C11-O2", "R2 BUDGET-EXIT", f, f"without a goal the visited set is labelled OPTIMAL only if the {cont} ran empty, MAX_ITER otherwise", okv, f"status `{ast.unparse(st) if st is not None else 'default (OPTIMAL)'}`: the loop also ends on max_iter with nodes still waiting, and the partial set would pass for the reachable set", node=s.call)
            if "INFEASIBLE" in s.statuses:
                a2 = gv.guard_atoms(s.node)
                ctx.ob("C11-O2", "R2 BUDGET-EXIT", f, "INFEASIBLE only when the frontier ran out", (f"F:{cont}" in a2 or atom_of("iterations < max_iter") in a2) and "T:is_goal" in a2 and s.node.loop is None, f"{sorted(a2)}", node=s.call)
            if "MAX_ITER" in s.statuses and ast.unparse(s.arg("solution")) == "None":
                a2 = gv.guard_atoms(s.node)
                ctx.ob("C11-O2", "R1 STATUS-GUARD", f, "MAX_ITER for a goal not found only while a node still waits in the frontier", f"T:{cont}" in a2 and s.node.loop is None, f"{sorted(a2)}: told from INFEASIBLE by the counter alone, a search whose {cont} ran empty on the last allowed iteration reports MAX_ITER for a goal it has shown to be unreachable (ledger row 79)", node=s.call)
    rp = ctx.func("utils.helpers", "reconstruct_path")
    t = ast.unparse(rp.node)
    ctx.ob("C11-O7", "R5 PAIRING", rp, "reconstruction follows parent pointers from the end node and reverses", "while current in parent" in t and "current = parent[current]" in t and "path.reverse()" in t and "path = [current]" in t, "", node=rp.node)


def check_all_distances(ctx: Ctx):
    """dijkstra_edges without target: the heap is drained (stale entries cost nothing but a pop), a popped entry is
    skipped exactly when it is stale, and distances are lowered on strict improvement only"""
    f = ctx.func("dijkstra", "dijkstra_edges")
    loops = [n for n in own_nodes(f.node) if isinstance(n, ast.While) and any(isinstance(c, ast.Call) and ast.unparse(c.func) == "heappop" for c in ast.walk(n))]
    ctx.floor("all-distances loops in dijkstra_edges", len(loops), 1)
    for w in loops:
        ctx.ob("C11-O1", "R2 BUDGET-EXIT", f, "the all-distances search runs until the heap is empty (no pop budget)", ast.unparse(w.test) == "heap", f"`while {ast.unparse(w.test)}`: stale heap entries also count as pops, so a budget of n pops can run out before every node was expanded, and reachable nodes keep a distance that is too large or none", node=w)
        t = ast.unparse(w)
        ctx.ob("C11-O1", "R21 search discipline", f, "a popped entry is skipped iff it is stale; an edge lowers a distance on strict improvement and pushes the new entry", "d, u = heappop(heap)" in t and "if d > dist.get(u, float('inf')):\n        continue" in t and "nd = d + w\n        if nd < dist.get(v, float('inf')):\n            dist[v] = nd\n            heappush(heap, (nd, v))" in t, "", node=w)


def check_bellman_ford(ctx: Ctx):
    f = ctx.func("bellman_ford", "bellman_ford")
    cfg = cfg_of(f.node)
    gv = GuardView(cfg)
    rounds = [n for n in own_nodes(f.node) if isinstance(n, ast.For) and isinstance(n.iter, ast.Call) and ast.unparse(n.iter.func) == "range" and any(isinstance(x, ast.For) for x in n.body)]
    ctx.require(len(rounds) == 1, "relaxation rounds loop not found")
    r = rounds[0]
    bound = r.iter.args[0] if len(r.iter.args) == 1 else None
    ok = False
    if bound is not None:
        # a*n + b with a >= 1 and (a == 1 => b >= -1)
        txt = ast.unparse(bound)
        if txt == "n_nodes":
            ok = True
        elif isinstance(bound, ast.BinOp) and isinstance(bound.op, (ast.Sub, ast.Add)) and ast.unparse(bound.left) == "n_nodes" and isinstance(bound.right, ast.Constant):
            b = -bound.right.value if isinstance(bound.op, ast.Sub) else bound.right.value
            ok = b >= -1
    ctx.ob("C11-O4", "R20 ROUND-COUNT", f, "at least n-1 relaxation rounds", ok, f"range({ast.unparse(bound) if bound is not None else '?'})", node=r)
    inner = [x for x in r.body if isinstance(x, ast.For)][0]
    ctx.ob("C11-O4", "R20 ROUND-COUNT", f, "each round relaxes every edge", ast.unparse(inner.iter) == "edges", "", node=inner)
    detect = [n for n in f.node.body if isinstance(n, ast.For) and ast.unparse(n.iter) == "edges" and f.node.body.index(n) > f.node.body.index(r)]
    ctx.ob("C11-O4", "R20 ROUND-COUNT", f, "a separate full detection pass over all edges follows the rounds", len(detect) == 1, "", node=f.node)
    conds_r = [x.test for x in ast.walk(inner) if isinstance(x, ast.If)]
    conds_d = [x.test for x in ast.walk(detect[0]) if isinstance(x, ast.If)] if detect else []
    same = len(conds_r) == 1 and len(conds_d) == 1 and canon(conds_r[0]) == canon(conds_d[0])
    want = canon(ast.parse("dist[u] != float('inf') and dist[u] + w < dist[v]", mode="eval").body)
    ctx.ob("C11-O4", "R18 SIBLING-AGREEMENT (expression)", f, "detection uses the relaxation condition (strict, skipping unreached tails)", same and canon(conds_r[0]) == want, f"relax `{ast.unparse(conds_r[0]) if conds_r else '?'}` / detect `{ast.unparse(conds_d[0]) if conds_d else '?'}`", node=f.node)
    relax_body = "; ".join(ast.unparse(x) for x in ast.walk(inner) if isinstance(x, ast.Assign))
    ctx.ob("C11-O4", "R21 search discipline", f, "relaxation stores distance and parent together", "dist[v] = dist[u] + w" in relax_body and "parent[v] = u" in relax_body, relax_body, node=inner)
    if detect:
        dhead = cfg.stmt_node_containing(detect[0].iter)
        for s in result_sites(f):
            if "UNBOUNDED" in s.statuses:
                continue
            ctx.ob("C11-O4", "R14 GATE", f, "every answer other than UNBOUNDED is given after the negative-cycle detection pass", cfg.dominates(dhead, s.node) and s.node.loop is not dhead, "an answer that is returned before the pass (a shortcut for trivial queries) is OPTIMAL even when a negative cycle is reachable, and disagrees with the same call for any other target", node=s.call)
    for s in result_sites(f):
        at = gv.guard_atoms(s.node)
        if "UNBOUNDED" in s.statuses:
            from_pass = bool(detect) and s.node.loop is not None and s.node.loop.ast is detect[0]
            # ... or from a parent chain that runs in a circle: rounding can turn a zero-weight cycle into one the
            # relaxation keeps improving by an ulp (0.3 + 3 - 3 < 0.3); the walk back from the target is cut off after n
            # steps and the call answers like the detection pass instead of never returning (ledger row 71)
            from_walk = "path is None" in at and any(isinstance(d, ast.Assign) and ast.unparse(d.targets[0]) == "path" and ast.unparse(d.value) == "_reconstruct_indexed(parent, target)" for d in own_nodes(f.node))
            ctx.ob("C11-O4", "R1 STATUS-GUARD", f, "UNBOUNDED only from the detection pass, or for a parent chain that does not end", from_pass or from_walk, f"{sorted(a for a in at if 'path' in a or 'dist' in a)}", node=s.call)
        elif "INFEASIBLE" in s.statuses:
            ctx.ob("C11-O4", "R1 STATUS-GUARD", f, "INFEASIBLE only for an infinite target distance", atom_of("dist[target] == float('inf')") in at and "target is not None" in at, f"{sorted(at)}", node=s.call)
        elif ast.unparse(s.arg("solution")) == "path":
            pd = [d.value for d in own_nodes(f.node) if isinstance(d, ast.Assign) and ast.unparse(d.targets[0]) == "path"]
            ctx.ob("C11-O7", "R5 PAIRING", f, "path reconstructed to the target whose distance is reported", len(pd) == 1 and ast.unparse(pd[0]) == "_reconstruct_indexed(parent, target)" and ast.unparse(s.arg("objective")) == "dist[target]", "", node=s.call)
    rec = ctx.func("bellman_ford", "_reconstruct_indexed")
    rt = ast.unparse(rec.node)
    ctx.ob("C11-O7", "R22 STUTTER-FREE", rec, "the walk along the parent pointers ends: at the start node, or after more steps than there are nodes (answer None)", "while parent[path[-1]] != -1:\n        if len(path) > len(parent):\n            return None\n        path.append(parent[path[-1]])" in rt and "path.reverse()" in rt, "without the cut-off a circle of parent pointers - which float rounding on a zero-weight cycle produces - makes the call run until memory is exhausted", node=rec.node)
    init = [n for n in own_nodes(f.node) if isinstance(n, ast.Assign) and ast.unparse(n.targets[0]) == "dist[start]"]
    ctx.ob("C11-O4", "R21 search discipline", f, "source distance initialised to 0, all others to infinity", len(init) == 1 and ast.unparse(init[0].value) in ("0.0", "0") and any(ast.unparse(n) == "dist = [float('inf')] * n_nodes" for n in own_nodes(f.node)), "", node=f.node)


def check_floyd_edge_ingest(ctx: Ctx, oid: str):
    """every input edge is entered into the distance table (self loops included: a negative one is a negative cycle,
    which the Rust kernel reports) - the forward store is unconditional, the mirrored one depends on `directed` only"""
    f = ctx.func("floyd_warshall", "floyd_warshall")
    cfg = cfg_of(f.node)
    stores = [x for x in own_nodes(f.node) if isinstance(x, ast.Assign) and isinstance(x.value, ast.Call) and ast.unparse(x.value.func) == "min" and ast.unparse(x.targets[0]).startswith("dist[")]
    ctx.floor("edge stores in floyd_warshall", len(stores), 2)
    from sa.guards import atoms as _atoms

    for st_ in stores:
        nn = cfg.node_of(st_)
        lp = nn.loop
        inside = {id(x) for x in ast.walk(lp.ast)} if lp is not None and lp.kind == "for" else set()
        at = set()
        for br in cfg.guards(nn):
            if br.test.kind == "test" and id(br.test.ast) in inside:
                at |= _atoms(br.test.ast, br.pol)
        allowed = set() if ast.unparse(st_.targets[0]) == "dist[u][v]" else {"F:directed"}
        ctx.ob(oid, "R12 NO-CARDINALITY-CUTOFF", f, f"`{ast.unparse(st_.targets[0])}` receives every input edge", at <= allowed, f"edges are skipped under {sorted(at - allowed)}: an edge left out of the table (a negative self loop is a negative cycle) changes the verdict", node=st_)


def check_floyd(ctx: Ctx):
    check_floyd_edge_ingest(ctx, "C11-O5")
    f = ctx.func("floyd_warshall", "floyd_warshall")
    cfg = cfg_of(f.node)
    gv = GuardView(cfg)
    relax = [n for n in own_nodes(f.node) if isinstance(n, ast.If) and isinstance(n.test, ast.Compare) and isinstance(n.test.left, ast.BinOp) and isinstance(n.test.left.op, ast.Add)]
    ctx.require(len(relax) >= 1, "Floyd-Warshall relaxation not found")
    ctx.count("relaxation sites in floyd_warshall", len(relax))
    for one in relax:
        _check_floyd_relaxation(ctx, f, cfg, gv, one)
    _check_floyd_rest(ctx, f, cfg, gv, relax[0])


def _check_floyd_relaxation(ctx, f, cfg, gv, one):
    relax = [one]
    t = relax[0].test
    a, b = t.left.left, t.left.right  # dist[i][k], dist[k][j]
    ok = all(isinstance(x, ast.Subscript) and isinstance(x.value, ast.Subscript) for x in (a, b))
    k1 = ast.unparse(a.slice) if ok else "?"
    k2 = ast.unparse(b.value.slice) if ok else "?"
    i_, j_ = (ast.unparse(a.value.slice), ast.unparse(b.slice)) if ok else ("?", "?")
    # loops enclosing the relaxation, outermost first
    nest = []
    n = cfg.stmt_node_containing(t).loop
    while n is not None:
        nest.append(ast.unparse(n.ast.target) if n.kind == "for" else "?")
        n = n.loop
    nest.reverse()
    ctx.ob("C11-O5", "R19 LOOP-NEST-ROLE", f, "intermediate vertex is bound by the outermost of the three loops", ok and k1 == k2 and len(nest) == 3 and nest[0] == k1 and {nest[1], nest[2]} == {i_, j_}, f"loop nest {nest}, relaxation `{ast.unparse(t)}`", node=relax[0])
    ranges = []
    n = cfg.stmt_node_containing(t).loop
    while n is not None:
        ranges.append(ast.unparse(n.ast.iter) if n.kind == "for" else "?")
        n = n.loop
    ctx.ob("C11-O5", "R19 LOOP-NEST-ROLE", f, "every ordered pair (i, j), the diagonal included, is relaxed for every intermediate vertex", ranges == ["range(n)"] * 3, f"loop ranges (innermost first) {ranges}: the negative-cycle verdict reads dist[i][i], so a cell range that skips the diagonal (or any ordered pair) leaves the verdict and the distances unrelaxed", node=relax[0])
    # the relaxation test is reached for every (k, i, j): nothing inside the three loops stands in front of it.  A pivot
    # or a row skipped "because it cannot matter" (no outgoing edge in the edge list, an infinite dist[i][k]) is an
    # argument about the data, and the first kind is wrong for undirected input, where the table holds both orientations
    at_ = {a_ for a_ in gv.guard_atoms(cfg.stmt_node_containing(t), stable_only=False) if not a_.startswith(("IN-LOOP:", "AFTER-LOOP:"))}
    outer = cfg.stmt_node_containing(t).loop
    while outer is not None and outer.loop is not None:
        outer = outer.loop
    before_ = {a_ for a_ in gv.guard_atoms(outer, stable_only=False)} if outer is not None else set()
    # a skip that the relaxation test itself implies is no cut-off: with an infinite leg the sum is never smaller
    legs = [ast.unparse(a), ast.unparse(b)] if ok else []
    implied = {atom_of(f"{x_} {op_} {inf_}") for x_ in legs for op_ in ("!=", "<") for inf_ in ("float('inf')", "inf", "INF", "math.inf")} | {f"T:isfinite({x_})" for x_ in legs} | {f"T:math.isfinite({x_})" for x_ in legs}
    inside = sorted(at_ - before_ - implied)
    ctx.ob("C11-O5", "R12 NO-CARDINALITY-CUTOFF", f, "inside the triple loop the relaxation test is reached unconditionally (no pivot, row or cell is skipped)", not inside, f"skipped under {inside}: distances that run through a skipped pivot stay too large and the status stays OPTIMAL", node=relax[0])
    ok2 = ast.unparse(t.comparators[0]) == f"dist[{i_}][{j_}]" and isinstance(t.ops[0], ast.Lt) and any(ast.unparse(s) == f"dist[{i_}][{j_}] = dist[{i_}][{k1}] + dist[{k1}][{j_}]" for s in relax[0].body)
    ctx.ob("C11-O5", "R19 LOOP-NEST-ROLE", f, "relaxation compares and stores the same cell", ok2, "", node=relax[0])


def _check_floyd_rest(ctx, f, cfg, gv, one):
    t = one.test
    edge_stores = [x for x in own_nodes(f.node) if isinstance(x, ast.Assign) and isinstance(x.value, ast.Call) and ast.unparse(x.value.func) == "min" and ast.unparse(x.targets[0]).startswith("dist[")]
    ok3 = len(edge_stores) == 2 and all({ast.unparse(a_) for a_ in x.value.args} == {ast.unparse(x.targets[0]), "w"} for x in edge_stores)
    ctx.ob("C11-O5", "R18 SIBLING-AGREEMENT (policy)", f, "duplicate edges merge by minimum weight (both orientations when undirected)", ok3, "", node=f.node)
    und = [x for x in edge_stores if ast.unparse(x.targets[0]) == "dist[v][u]"]
    if und:
        at = gv.guard_atoms(cfg.node_of(und[0]))
        ctx.ob("C11-O5", "R18 SIBLING-AGREEMENT (policy)", f, "reverse orientation only in undirected mode", "F:directed" in at, "", node=und[0])
    for s in result_sites(f):
        if "UNBOUNDED" in s.statuses:
            at = gv.guard_atoms(s.node)
            ctx.ob("C11-O5", "R1 STATUS-GUARD", f, "UNBOUNDED only under a negative diagonal entry, after the triple loop", atom_of("dist[i][i] < 0") in at and cfg.stmt_node_containing(t).loop.loop.loop.id in cfg.backward(s.node), "", node=s.call)
    diag = [x for x in own_nodes(f.node) if isinstance(x, ast.Assign) and ast.unparse(x.targets[0]) == "dist[i][i]"]
    ctx.ob("C11-O5", "R21 search discipline", f, "diagonal initialised to 0 before edges are read", len(diag) == 1 and ast.unparse(diag[0].value) in ("0.0", "0"), "", node=f.node)
    if len(diag) == 1:
        before = cfg.backward(cfg.node_of(diag[0]))
        late = [x for x in edge_stores if cfg.node_of(x).id in before]
        ctx.ob("C11-O5", "R2 ORDER", f, "no edge is entered into the table before the diagonal is zeroed", not late, f"`{ast.unparse(late[0]) if late else ''}` runs before `dist[i][i] = 0`: the zero overwrites a negative self loop, which is a negative cycle the detection pass then never sees", node=diag[0])


def check_grid(ctx: Ctx):
    f = ctx.func("a_star", "astar_grid")
    cfg = cfg_of(f.node)
    t = ast.unparse(f.node)
    auto = [n for n in own_nodes(f.node) if isinstance(n, ast.If) and ast.unparse(n.test) in ("h_name == 'auto'", "heuristic == 'auto'")]
    ok = False
    if len(auto) == 1 and len(auto[0].body) == 1 and isinstance(auto[0].body[0], ast.Assign) and isinstance(auto[0].body[0].value, ast.IfExp):
        e = auto[0].body[0].value
        eight = ast.unparse(e.body) if ast.unparse(e.test) == "directions == 8" else (ast.unparse(e.orelse) if ast.unparse(e.test) in ("directions == 4", "directions != 8") else None)
        four = ast.unparse(e.orelse) if ast.unparse(e.test) == "directions == 8" else (ast.unparse(e.body) if ast.unparse(e.test) in ("directions == 4", "directions != 8") else None)
        ok = eight in ("'octile'", "'chebyshev'", "'euclidean'") and four in ("'manhattan'", "'octile'", "'chebyshev'", "'euclidean'")
    ctx.ob("C11-O6", "R18 table", f, "`auto` resolves to a heuristic admissible for the move set (8-neighbour: octile/chebyshev/euclidean)", ok, "", node=auto[0] if auto else f.node)
    nb = ctx.func("a_star", "astar_grid.neighbors")
    ncfg = cfg_of(nb.node)
    ngv = GuardView(ncfg)
    mult = [n for n in own_nodes(nb.node) if isinstance(n, ast.AugAssign) and isinstance(n.op, ast.Mult)]
    ok = len(mult) == 1 and ast.unparse(mult[0].value) == "_SQRT2"
    if ok:
        at = ngv.guard_atoms(ncfg.node_of(mult[0]))
        ok = {atom_of("dr != 0"), atom_of("dc != 0")} <= at
    ctx.ob("C11-O6", "R18 table", nb, "diagonal step cost multiplier sqrt(2) applied iff both deltas are non-zero", ok, "", node=nb.node)
    y = [n for n in own_nodes(nb.node) if isinstance(n, ast.Yield)]
    ok = len(y) == 1
    if ok:
        at = ngv.guard_atoms(ncfg.stmt_node_containing(y[0]), stable_only=False)
        ok = {"0 <= nr", "nr < rows", "0 <= nc", "nc < cols", "cell not in blocked_set"} <= at and ast.unparse(y[0].value) == "((nr, nc), base)"
    ctx.ob("C11-O6", "R18 table", nb, "moves stay inside the grid and off blocked cells; the yielded cost is the (possibly scaled) cell cost", ok, "", node=nb.node)
    mod = ctx.repo.module("a_star")
    src = ast.unparse(mod.tree)
    # each named heuristic is the distance it is named after, in cost units (astar adds it to g): one table row per name
    want_h = {
        "manhattan": {"abs(s[0] - gr) + abs(s[1] - gc)"},
        "euclidean": {"((s[0] - gr) ** 2 + (s[1] - gc) ** 2) ** 0.5", "sqrt((s[0] - gr) ** 2 + (s[1] - gc) ** 2)", "hypot(s[0] - gr, s[1] - gc)"},
        "chebyshev": {"max(abs(s[0] - gr), abs(s[1] - gc))"},
        "octile": {"max(dr, dc) + _SQRT2_MINUS_1 * min(dr, dc)"},
        "_": {"abs(s[0] - gr) + abs(s[1] - gc)"},
    }
    n_h = 0
    for m_ in (x for x in own_nodes(f.node) if isinstance(x, ast.Match)):
        for case in m_.cases:
            pat = case.pattern
            name = pat.value.value if isinstance(pat, ast.MatchValue) and isinstance(pat.value, ast.Constant) else "_" if isinstance(pat, ast.MatchAs) and pat.pattern is None else None
            defs = [d for d in case.body if isinstance(d, ast.FunctionDef)]
            if name not in want_h or len(defs) != 1:
                continue
            n_h += 1
            rets = [r for r in ast.walk(defs[0]) if isinstance(r, ast.Return)]
            arg = defs[0].args.args[0].arg if defs[0].args.args else "s"
            got = [ast.unparse(r.value).replace(f"{arg}[", "s[") if r.value is not None else "None" for r in rets]
            extra_ok = name != "octile" or any(ast.unparse(st).replace(f"{arg}[", "s[") == "dr, dc = (abs(s[0] - gr), abs(s[1] - gc))" for st in defs[0].body)
            ctx.ob("C11-O6", "R18 table", f, f"heuristic `{name}` is the distance of that name to the goal cell, in step-cost units", len(got) == 1 and got[0] in want_h[name] and extra_ok, f"`{got[0] if got else '?'}`: astar adds the estimate to the cost so far - an estimate in other units (a squared distance, a scaled one) overestimates, and a longer path comes back labelled OPTIMAL", node=defs[0])
    ctx.floor("named grid heuristics", n_h, 5)
    ctx.ob("C11-O6", "R18 table", f, "octile heuristic = max + (sqrt2 - 1) * min; constants derive from sqrt(2)", "max(dr, dc) + _SQRT2_MINUS_1 * min(dr, dc)" in t and "_SQRT2 = sqrt(2)" in src and "_SQRT2_MINUS_1 = _SQRT2 - 1" in src, "", node=f.node)
    ctx.ob("C11-O6", "R18 table", f, "move sets: 8 directions without (0,0); 4 directions = axis moves", "if (dx, dy) != (0, 0)" in src and "if dx == 0 or dy == 0" in src and ast.unparse(ast.parse("dirs = _DIRS_8 if directions == 8 else _DIRS_4")) in t, "", node=f.node)
    hard = []
    for g in [f] + list(f.children.values()):
        for n in own_nodes(g.node):
            if isinstance(n, ast.Name) and n.id in ("_DIRS_4", "_DIRS_8"):
                sn = cfg_of(g.node).stmt_node_containing(n)
                if sn is None or ast.unparse(sn.ast) != "dirs = _DIRS_8 if directions == 8 else _DIRS_4":
                    hard.append(n)
    ctx.ob("C11-O6", "R18 table", f, "the move-set constants are referenced only where `directions` selects one (no hard-coded neighbourhood)", not hard, f"lines {sorted({h.lineno for h in hard})}: a shortcut that scans one fixed neighbourhood is wrong in the other mode", node=hard[0] if hard else f.node)
    own = result_sites(f)
    ctx.ob("C11-O6", "R18 table", f, "astar_grid gives no verdict of its own: every result comes from astar on the built graph", not own, f"{len(own)} Result construction(s) in the wrapper", node=own[0].call if own else f.node)
    deleg = [n for n in own_nodes(f.node) if isinstance(n, ast.Return) and isinstance(n.value, ast.Call) and ast.unparse(n.value.func) == "astar"]
    ctx.ob("C11-O6", "R18 table", f, "grid search delegates to astar with the built neighbours, heuristic and the caller's weight", len(deleg) == 1 and [ast.unparse(a) for a in deleg[0].value.args] == ["start", "goal", "neighbors", "h"] and any(k.arg == "weight" and ast.unparse(k.value) == "weight" for k in deleg[0].value.keywords), "", node=f.node)
    ctx.note("astar_grid: an explicitly requested 'manhattan' heuristic with directions=8 (or cell costs below 1) is inadmissible and still labelled OPTIMAL; the property's quantifier ranges over grids and neighbour modes, not over heuristic names or cost maps - information only")


def check_loop_and_exit_shapes(ctx: Ctx):
    """Shape rules found missing by the statement-mutation probe: the search loops run on exactly (frontier non-empty,
    budget left); the max_cost prune fires on exactly (limit given, popped cost above it); Bellman-Ford's early exit is
    taken on exactly (a round without update) and a store into dist sets the flag; each verdict a solver can give has
    its publication site; the path rebuilders collect every node they walk through."""
    for mod, name, cont in (("bfs", "bfs", "queue"), ("bfs", "dfs", "stack"), ("dijkstra", "dijkstra", "heap"), ("a_star", "astar", "open_heap")):
        f = ctx.func(mod, name)
        wl = [n for n in own_nodes(f.node) if isinstance(n, ast.While) and "max_iter" in names_in(n.test)]
        ctx.require(len(wl) == 1, f"budgeted search loop not found in {name}")
        at = _atoms(wl[0].test, True)
        front = [a for a in at if a.startswith("T:")]
        ctx.ob("C11-O2", "R2 BUDGET-EXIT", f, f"{name}: the search loop runs exactly while the frontier has entries and the budget lasts", len(at) == 2 and len(front) == 1 and atom_of("iterations < max_iter") in at, f"`while {ast.unparse(wl[0].test)}`", node=wl[0])
    for mod, name in (("dijkstra", "dijkstra"), ("a_star", "astar")):
        f = ctx.func(mod, name)
        cfg = cfg_of(f.node)
        prunes = [n for n in own_nodes(f.node) if isinstance(n, ast.If) and "max_cost" in names_in(n.test)]
        ctx.floor(f"max_cost tests in {name}", len(prunes), 1)
        for pr in prunes:
            at = _atoms(pr.test, True)
            cost_atoms = [a for a in at if "max_cost" in a and a != "max_cost is not None"]
            okp = "max_cost is not None" in at and len(at) == 2 and len(cost_atoms) == 1 and cost_atoms[0].startswith("max_cost < ") and len(pr.body) == 1 and isinstance(pr.body[0], ast.Continue) and not pr.orelse
            ctx.ob("C11-O2", "R1 STATUS-GUARD", f, f"{name}: a popped node is left unexpanded for its cost exactly when a limit is given and its cost is above the limit", okp, f"`if {ast.unparse(pr.test)}` -> {ast.unparse(pr.body[0])[:30]}: any other reading of the limit prunes nodes inside it, and targets within max_cost come back INFEASIBLE", node=pr)
        # a goal over the limit is not an answer: nodes over the limit are not expanded, so the cost at which such a
        # goal is popped may be that of a detour around a pruned node - the success return lies behind the cut
        for s_ in result_sites(f):
            if not (set(s_.statuses) & {"OPTIMAL", "FEASIBLE"}) or s_.node.loop is None:
                continue
            behind = any(cfg.dominates(cfg.stmt_node_containing(pr.test), s_.node) for pr in prunes if cfg.stmt_node_containing(pr.test) is not None)
            ctx.ob("C11-O2", "R2 ORDER", f, f"{name}: the goal is reported only after the cost limit was tested for the popped node", behind, "with the goal test first, s->a (5), s->b (11), a->t (10), b->t (1) and max_cost=10 answers OPTIMAL 15 via a: b was pruned, the shortest path (12) runs through it", node=s_.call)
    # the budget counts expanded nodes, not heap pops: dijkstra_edges hands dijkstra the budget n_nodes + 1 on exactly
    # that reading (superseded heap entries are popped too, and there can be many more of them than nodes)
    for mod, name in (("dijkstra", "dijkstra"), ("a_star", "astar")):
        f = ctx.func(mod, name)
        cfg = cfg_of(f.node)
        gv_ = GuardView(cfg)
        incs = [n for n in own_nodes(f.node) if isinstance(n, ast.AugAssign) and ast.unparse(n.target) == "iterations"]
        ctx.floor(f"iteration counter updates in {name}", len(incs), 1)
        for inc in incs:
            at = gv_.guard_atoms(cfg.node_of(inc), stable_only=False)
            ctx.ob("C11-O2", "R2 BUDGET-EXIT", f, f"{name}: the iteration counter advances once per expanded node (after the already-closed test)", any(a.endswith("not in closed") for a in at), f"{sorted(a for a in at if 'closed' in a or 'heap' in a)}: counted per pop, stale entries use up a budget that callers size by the number of nodes, and a reachable target comes back as MAX_ITER", node=inc)
    bf = ctx.func("bellman_ford", "bellman_ford")
    bcfg = cfg_of(bf.node)
    bgv = GuardView(bcfg)
    brk = [n for n in own_nodes(bf.node) if isinstance(n, ast.Break)]
    for b in brk:
        at = {a for a in bgv.guard_atoms(bcfg.node_of(b), stable_only=False, after_loops=False) if not a.startswith("IN-LOOP")}
        ctx.ob("C11-O4", "R2 early exit", bf, "the relaxation rounds end early exactly after a round without update", at == {"F:updated"}, f"{sorted(at)}", node=b)
    ups = [n for n in own_nodes(bf.node) if isinstance(n, ast.Assign) and ast.unparse(n.targets[0]) == "updated"]
    sets = [n for n in ups if ast.unparse(n.value) == "True"]
    resets = [n for n in ups if ast.unparse(n.value) == "False"]
    oku = len(sets) == 1 and len(resets) == 1
    if oku:
        blk = _enclosing_block(bf.node, sets[0])
        oku = any(isinstance(x, ast.Assign) and ast.unparse(x.targets[0]).startswith("dist[") for x in blk)
        rl = bcfg.node_of(resets[0]).loop
        sl = bcfg.node_of(sets[0]).loop
        oku = oku and rl is not None and sl is not None and sl.loop is rl
    ctx.ob("C11-O4", "R16 PAIRED-EFFECTS", bf, "`updated` is cleared at the start of each round and raised together with every distance store of the round", oku, "a flag that stays down (or is never cleared) ends the rounds too early (or never early): distances are left unrelaxed, and the detection pass then reports a negative cycle that does not exist", node=sets[0] if sets else bf.node)
    WANT = {
        ("bellman_ford", "bellman_ford"): {"UNBOUNDED": 1, "INFEASIBLE": 1, "OPTIMAL": 2},
        ("floyd_warshall", "floyd_warshall"): {"UNBOUNDED": 1, "OPTIMAL": 1},
        ("bfs", "bfs"): {"OPTIMAL": 2, "MAX_ITER": 2, "INFEASIBLE": 1},
        ("bfs", "dfs"): {"FEASIBLE": 1, "MAX_ITER": 2, "INFEASIBLE": 1, "OPTIMAL": 1},
        ("dijkstra", "dijkstra"): {"OPTIMAL": 1, "MAX_ITER": 1, "INFEASIBLE": 1},
        ("a_star", "astar"): {"MAX_ITER": 1, "INFEASIBLE": 1},
    }
    for (mod, name), want in WANT.items():
        f = ctx.func(mod, name)
        have: dict = {}
        for s_ in result_sites(f):
            for st in s_.statuses:
                have[st] = have.get(st, 0) + 1
        short = {k: (have.get(k, 0), v) for k, v in want.items() if have.get(k, 0) < v}
        ctx.ob("C11-O2", "R3 STATUS-USE", f, f"{name} has a publication site for every verdict it can owe ({', '.join(sorted(want))})", not short, f"(found, expected) {short}: a verdict without a site is never given - a negative cycle, an unreachable target or an exhausted budget then ends in the next return or in None", node=f.node)
    # heap entries are (cost, [secondary key,] tie-breaker, node): the tie-breaker must differ between entries, or equal costs fall
    # through to comparing node labels (TypeError for labels without an order - the property allows any label)
    for mod, name in (("dijkstra", "dijkstra"), ("a_star", "astar")):
        f = ctx.func(mod, name)
        cfg = cfg_of(f.node)
        entries = [n for n in own_nodes(f.node) if isinstance(n, ast.Call) and ast.unparse(n.func) == "heappush" and isinstance(n.args[1], ast.Tuple) and len(n.args[1].elts) >= 3]
        inits = [n for n in own_nodes(f.node) if isinstance(n, (ast.Assign, ast.AnnAssign)) and isinstance(n.value, ast.List) and len(n.value.elts) == 1 and isinstance(n.value.elts[0], ast.Tuple) and len(n.value.elts[0].elts) >= 3]
        ctx.floor(f"heap entry constructions in {name}", len(entries) + len(inits), 2)
        for e in entries + inits:
            tup = e.args[1] if isinstance(e, ast.Call) else e.value.elts[0]
            tb = ast.unparse(tup.elts[-2])
            stn = cfg.stmt_node_containing(e) if isinstance(e, ast.Call) else cfg.node_of(e)
            blk = _enclosing_block(f.node, stn.ast)
            idx = next(i for i, x in enumerate(blk) if x is stn.ast)
            oki = any(isinstance(x, ast.AugAssign) and ast.unparse(x.target) == tb and isinstance(x.op, ast.Add) for x in blk[idx + 1 :])
            ctx.ob("C11-O3", "R16 PAIRED-EFFECTS", f, f"{name}: the tie-breaker `{tb}` grows after every heap entry that uses it", oki, f"`{ast.unparse(tup)}` is not followed by `{tb} += 1`", node=e)
    de = ctx.func("dijkstra", "dijkstra_edges")
    dcfg = cfg_of(de.node)
    dgv = GuardView(dcfg)
    apps = [n for n in own_nodes(de.node) if isinstance(n, ast.Call) and ast.unparse(n.func) == "adj[u].append"]
    oka = len(apps) == 1 and ast.unparse(apps[0].args[0]) == "(v, w)"
    if oka:
        an = dcfg.stmt_node_containing(apps[0])
        oka = an.loop is not None and an.loop.kind == "for" and ast.unparse(an.loop.ast.iter) == "edges" and ast.unparse(an.loop.ast.target) == "(u, v, w)" and not [b for b in dcfg.guards(an) if b.test.kind == "test"]
    ctx.ob("C11-O1", "R12 NO-CARDINALITY-CUTOFF", de, "dijkstra_edges enters every input edge (u, v, w) into the successor list of u", bool(oka), "", node=apps[0] if apps else de.node)
    dele = [n for n in own_nodes(de.node) if isinstance(n, ast.Return) and isinstance(n.value, ast.Call) and ast.unparse(n.value.func) == "dijkstra"]
    okd = len(dele) == 1 and [ast.unparse(a) for a in dele[0].value.args] == ["source", "target", "lambda s: adj[s]"] and "target is not None" in dgv.guard_atoms(dcfg.node_of(dele[0]), stable_only=False)
    ctx.ob("C11-O1", "R14 GATE", de, "with a target dijkstra_edges hands the query (source, target, successor lists) to dijkstra; without one it runs the all-distances search", okd, "", node=dele[0] if dele else de.node)
    for wname in ("bfs_edges", "dfs_edges"):
        ctx.step(edge_wrapper_adjacency, "C11-O1", ctx.func("bfs", wname), wname)
        ctx.step(edge_wrapper_returns_generic, "C11-O1", ctx.func("bfs", wname), wname, wname[: -len("_edges")])
    from .sat_common import _need as _need_w

    for wname, gen in (("bfs_edges", "bfs"), ("dfs_edges", "dfs")):
        ctx.step(_need_w, "C11-O1", "R14 GATE", ctx.func("bfs", wname), f"{wname}: the generic search gets (source, target, successor lists) and a budget no search can exhaust; with a target its Result is handed on unchanged, without one the visited set is returned sorted", [f"result = {gen}(source, target, lambda s: adj[s], max_iter=n_nodes + 1)\n    if target is None:\n        return Result(sorted(result.solution), 0, result.iterations, result.evaluations)\n    return result"])
    rp = ctx.func("utils.helpers", "reconstruct_path")
    wl = [n for n in own_nodes(rp.node) if isinstance(n, ast.While)]
    okr = len(wl) == 1 and [ast.unparse(x) for x in wl[0].body] == ["current = parent[current]", "path.append(current)"]
    ctx.ob("C11-O7", "R29 EXACTLY-ONCE", rp, "every node the rebuild walks through is appended to the path, after the step to its parent", okr, "", node=rp.node)
    ri = ctx.func("bellman_ford", "_reconstruct_indexed")
    ti = ast.unparse(ri.node)
    ctx.ob("C11-O7", "R29 EXACTLY-ONCE", ri, "the indexed rebuild walks parent links from the target until -1, with a length bound, and reverses", "path = [target]" in ti and "path.append(parent[path[-1]])" in ti and any(isinstance(w_, ast.While) and "parent[path[-1]] != -1" in ast.unparse(w_.test) and not isinstance(w_.test, ast.UnaryOp) for w_ in own_nodes(ri.node)) and ("reverse()" in ti or "[::-1]" in ti) and any(isinstance(r_, ast.Return) and r_.value is not None for r_ in own_nodes(ri.node)), "", node=ri.node)


def run(ctx: Ctx):
    ctx.step(check_loop_and_exit_shapes)
    ctx.step(best_first, ctx.func("dijkstra", "dijkstra"), astar=False)
    ctx.step(best_first, ctx.func("a_star", "astar"), astar=True)
    ctx.step(check_all_distances)
    ctx.step(check_bfs_dfs)
    ctx.step(check_bellman_ford)
    ctx.step(check_all_distances)
    ctx.step(check_floyd)
    ctx.step(check_grid)
    generic_sweeps(ctx)


# ---------------------------------------------------------------------------------------------
from sa import mutate as M  # noqa: E402

DJ, AS, BF, FW, BS = "solvor/dijkstra.py", "solvor/a_star.py", "solvor/bellman_ford.py", "solvor/floyd_warshall.py", "solvor/bfs.py"


def _v_goal_on_push(tree):
    g = M.find_func(tree, "dijkstra")
    M.replace_stmt(g, lambda s: isinstance(s, ast.If) and M.src_is(s.test, "is_goal(current)"), [])
    M.replace_stmt(g, lambda s: M.src_is(s, "heappush(heap, (tentative_g, counter, neighbor))"), M.stmts("heappush(heap, (tentative_g, counter, neighbor))\nif is_goal(neighbor):\n    path = reconstruct_path(parent, neighbor)\n    return Result(path, g[neighbor], iterations, evaluations)"))


def _v_non_strict(tree):
    g = M.find_func(tree, "dijkstra")
    M.replace_expr(g, lambda e: M.src_is(e, "tentative_g < g.get(neighbor, float('inf'))"), M.expr("tentative_g <= g.get(neighbor, float('inf'))"))


def _v_key_edge_cost(tree):
    g = M.find_func(tree, "dijkstra")
    M.replace_expr(g, lambda e: M.src_is(e, "(tentative_g, counter, neighbor)"), M.expr("(edge_cost, counter, neighbor)"))


def _v_astar_optimal_always(tree):
    g = M.find_func(tree, "astar")
    M.replace_expr(g, lambda e: isinstance(e, ast.IfExp) and M.src_has(e, "weight == 1.0"), M.expr("Status.OPTIMAL"))


def _v_astar_tiebreak(tree):
    g = M.find_func(tree, "astar")
    M.replace_expr(g, lambda e: M.src_is(e, "tentative_g + weight * heuristic(neighbor)"), M.expr("weight * heuristic(neighbor)"))


def _v_infeasible_on_budget(tree):
    g = M.find_func(tree, "dijkstra")
    M.replace_stmt(g, lambda s: isinstance(s, ast.If) and M.src_is(s.test, "heap"), [])


def _v_max_iter_by_counter(fn, cont):
    def mut(tree):
        g = M.find_func(tree, fn)
        if cont == "heap":
            M.replace_stmt(g, lambda s: isinstance(s, ast.While) and "max_iter" not in ast.unparse(s.test), [])
        hits = [n for n in ast.walk(g) if isinstance(n, ast.If) and ast.unparse(n.test) == cont and "MAX_ITER" in ast.unparse(n.body[0])]
        assert len(hits) == 1, hits
        hits[0].test = M.expr("iterations >= max_iter")

    return mut


def _v_no_drain(tree):
    g = M.find_func(tree, "dijkstra")
    M.replace_stmt(g, lambda s: isinstance(s, ast.While) and "max_iter" not in ast.unparse(s.test), [])


def _v_drain_everything(tree):
    g = M.find_func(tree, "astar")
    M.replace_expr(g, lambda e: M.src_is(e, "heap and heap[0][-1] in closed"), M.expr("heap"))


def _v_bf_rounds(tree):
    g = M.find_func(tree, "bellman_ford")
    M.replace_expr(g, lambda e: M.src_is(e, "range(n_nodes - 1)"), M.expr("range(n_nodes - 2)"))


def _v_bf_detect_differs(tree):
    g = M.find_func(tree, "bellman_ford")
    det = [s for s in g.body if isinstance(s, ast.For) and M.src_is(s.iter, "edges")][0]
    M.replace_expr(det, lambda e: M.src_is(e, "dist[u] + w < dist[v]"), M.expr("dist[u] + w <= dist[v]"))


def _v_fw_k_inner(tree):
    g = M.find_func(tree, "floyd_warshall")
    loops = [s for s in g.body if isinstance(s, ast.For) and M.src_is(s.target, "k")]
    if not loops:
        raise M.Skip("k loop not found")
    outer = loops[0]
    mid = outer.body[0]
    outer.target, mid.target = mid.target, outer.target


def _v_fw_merge_last(tree):
    g = M.find_func(tree, "floyd_warshall")
    M.replace_stmt(g, lambda s: M.src_is(s, "dist[u][v] = min(dist[u][v], w)"), M.stmts("dist[u][v] = w"))


def _v_bfs_lifo(tree):
    g = M.find_func(tree, "bfs")
    M.replace_expr(g, lambda e: M.src_is(e, "queue.popleft()"), M.expr("queue.pop()"))


def _v_bfs_mark_on_pop(tree):
    g = M.find_func(tree, "bfs")
    M.replace_stmt(g, lambda s: M.src_is(s, "visited.add(neighbor)"), [])
    M.replace_stmt(g, lambda s: M.src_is(s, "iterations += 1"), M.stmts("iterations += 1\nvisited.add(current)"))


def _v_grid_auto_manhattan(tree):
    g = M.find_func(tree, "astar_grid")
    M.replace_expr(g, lambda e: isinstance(e, ast.IfExp) and M.src_has(e, "'octile'"), M.expr("'manhattan'"))


def _v_grid_diag_always(tree):
    g = M.find_func(tree, "astar_grid.neighbors")
    M.replace_expr(g, lambda e: M.src_is(e, "dr != 0 and dc != 0"), M.expr("dr != 0 or dc != 0"))


def _v_dfs_optimal(tree):
    g = M.find_func(tree, "dfs")
    M.replace_expr(g, lambda e: M.src_is(e, "Status.FEASIBLE"), M.expr("Status.OPTIMAL"))


def _t_reformat(tree):
    pass


def _v_fw_upper_triangle(tree):
    g = M.find_func(tree, "floyd_warshall")
    loops = [n for n in ast.walk(g) if isinstance(n, ast.For) and M.src_is(n.target, "j") and M.src_is(n.iter, "range(n)")]
    inner = [l for l in loops if any(isinstance(x, ast.If) and M.src_has(x.test, "dist[i][k] + dist[k][j]") for x in ast.walk(l))]
    if not inner:
        raise M.Skip("relaxation loop over j not found")
    inner[0].iter = M.expr("range(0 if directed else i + 1, n)")
    M.replace_stmt(inner[0], lambda s: M.src_is(s, "dist[i][j] = dist[i][k] + dist[k][j]"), lambda s: [s] + M.stmts("if not directed:\n    dist[j][i] = dist[i][j]"))


def _v_goal_bound_eq(tree):
    g = M.find_func(tree, "dijkstra")
    M.replace_expr(g, lambda e: isinstance(e, ast.Lambda) and M.src_has(e, "s == goal"), M.expr("goal.__eq__"))


def _v_fw_skip_self_loops(tree):
    g = M.find_func(tree, "floyd_warshall")
    M.replace_stmt(g, lambda s: isinstance(s, ast.Assign) and M.src_is(s.targets[0], "dist[u][v]") and M.src_has(s.value, "min("), lambda s: M.stmts("if u == v:\n    continue") + [s])


def _v_fw_diag_after_edges(tree):
    g = M.find_func(tree, "floyd_warshall")
    di = [i for i, s in enumerate(g.body) if isinstance(s, ast.For) and M.src_has(s, "dist[i][i] = 0")]
    ed = [i for i, s in enumerate(g.body) if isinstance(s, ast.For) and M.src_has(s, "min(dist[u][v]")]
    if not di or not ed or di[0] > ed[0]:
        raise M.Skip("diagonal / edge loops not found")
    d = g.body.pop(di[0])
    g.body.insert(ed[0], d)


def _v_dijkstra_counts_pops(tree):
    g = M.find_func(tree, "dijkstra")
    inc = [n for n in ast.walk(g) if isinstance(n, ast.AugAssign) and M.src_is(n.target, "iterations")]
    wl = [n for n in ast.walk(g) if isinstance(n, ast.While)]
    if not inc or not wl:
        raise M.Skip("counter not found")
    wl[0].body.remove(inc[0])
    wl[0].body.insert(1, inc[0])


def _v_bfs_goal_truthiness(tree):
    g = M.find_func(tree, "bfs")
    M.replace_stmt(g, lambda s: isinstance(s, ast.Assign) and M.src_is(s.targets[0], "is_goal"), M.stmts("is_goal = goal if callable(goal) else (lambda s: s == goal) if goal else None"))


def _v_bfs_partial_set_optimal(tree):
    g = M.find_func(tree, "bfs")
    M.replace_expr(g, lambda e: isinstance(e, ast.IfExp) and M.src_has(e, "Status.MAX_ITER") and M.src_has(e.test, "queue"), M.expr("Status.OPTIMAL"))


def _v_dj_pop_budget(tree):
    g = M.find_func(tree, "dijkstra_edges")
    w = [n for n in ast.walk(g) if isinstance(n, ast.While) and M.src_is(n.test, "heap")]
    if not w:
        raise M.Skip("all-distances loop not found")
    w[0].test = M.expr("heap and iterations < n_nodes")


def _v_bf_trivial_query_shortcut(tree):
    g = M.find_func(tree, "bellman_ford")
    M.replace_stmt(g, lambda s: isinstance(s, ast.Assign) and M.src_is(s.targets[0], "dist") and M.src_has(s.value, "float('inf')"), lambda s: M.stmts("if target is not None and target == start:\n    return Result([start], 0.0, 0, len(edges))") + [s])


def _t_fw_swap_ij(tree):
    g = M.find_func(tree, "floyd_warshall")
    outer = [s for s in g.body if isinstance(s, ast.For) and M.src_is(s.target, "k")][0]
    mid = outer.body[0]
    inner = mid.body[0]
    mid.target, inner.target = inner.target, mid.target


def _v_grid_fast_fail(tree):
    g = M.find_func(tree, "astar_grid")
    M.replace_stmt(g, lambda s: M.src_is(s, "h_name = heuristic"), M.stmts("if start != goal and not any((0 <= gr + dr < rows and 0 <= gc + dc < cols and grid[gr + dr][gc + dc] not in blocked_set for dr, dc in _DIRS_4)):\n    return Result(None, float('inf'), 0, 0, Status.INFEASIBLE)\nh_name = heuristic"))


def _v_goal_before_cost_cut(tree, fname):
    g = M.find_func(tree, fname)
    for w in ast.walk(g):
        if isinstance(w, ast.While):
            ks = [i for i, st in enumerate(w.body) if isinstance(st, ast.If) and M.src_has(st.test, "max_cost")]
            gs = [i for i, st in enumerate(w.body) if isinstance(st, ast.If) and M.src_has(st.test, "is_goal(")]
            if ks and gs and ks[0] < gs[0]:
                cut = w.body.pop(ks[0])
                w.body.insert(gs[0], cut)
                return
    raise M.Skip("cost cut / goal test not found in this order")


def _v_dj_goal_before_cost_cut(tree):
    _v_goal_before_cost_cut(tree, "dijkstra")


def _v_as_goal_before_cost_cut(tree):
    _v_goal_before_cost_cut(tree, "astar")


def _v_grid_budget_capped(tree):
    g = M.find_func(tree, "astar_grid")
    M.insert(g, "h_name = heuristic", "max_iter = min(max_iter, sum(1 for row in grid for cell in row if cell not in blocked_set))")


def _v_floyd_skips_sink_pivots(tree):
    g = M.find_func(tree, "floyd_warshall")
    loop = [x for x in ast.walk(g) if isinstance(x, ast.For) and M.src_is(x.target, "k")]
    if not loop:
        raise M.Skip("pivot loop not found")
    loop[0].body[0:0] = M.stmts("if k not in has_out:\n    continue")
    M.insert(g, "for k in range(n)", "has_out = {u for u, _, _ in edges}")


def _v_bfs_edges_own_answer(tree):
    g = M.find_func(tree, "bfs_edges")
    g.body[1:1] = M.stmts("if source == target:\n    return Result([source], 0, 0, 0)") if isinstance(g.body[0], ast.Expr) else M.stmts("if source == target:\n    return Result([source], 0, 0, 0)")


def _v_edge_validator_fast_path(tree):
    g = M.find_func(tree, "check_edge_nodes")
    g.body.insert(1 if isinstance(g.body[0], ast.Expr) else 0, M.stmts("if edges and min(u for u, _, _ in edges) >= 0 and max(max(u, v) for u, v, _ in edges) < n_nodes:\n    return")[0])


def _v_bf_unbounded_walk(tree):
    g = M.find_func(tree, "_reconstruct_indexed")
    M.replace_stmt(g, lambda s: isinstance(s, ast.If) and M.src_has(s.test, "len(path) > len(parent)"), [])


def _v_euclidean_squared(tree):
    g = M.find_func(tree, "astar_grid")
    M.replace_expr(g, lambda e: M.src_is(e, "((s[0] - gr) ** 2 + (s[1] - gc) ** 2) ** 0.5"), M.expr("(s[0] - gr) ** 2 + (s[1] - gc) ** 2"))

VARIANTS = [
    M.Variant("euclidean grid heuristic without the square root (seed C11-Z)", AS, _v_euclidean_squared, "C11-O6"),
    M.Variant("bellman_ford walks the parent pointers without a bound: a rounding-made parent cycle never returns (original defect, ledger row 71)", BF, _v_bf_unbounded_walk, "C11-O7"),
    M.Variant("check_edge_nodes returns early when the sources are non-negative and no endpoint is too large (seed C11-U)", "solvor/utils/validate.py", _v_edge_validator_fast_path, "C11-G7"),
    M.Variant("astar_grid lowers the caller's iteration budget to the number of passable cells (seed C11-S)", AS, _v_grid_budget_capped, "C11-G17"),
    M.Variant("floyd_warshall skips pivots that no listed edge leaves (seed C11-T)", FW, _v_floyd_skips_sink_pivots, "C11-O5"),
    M.Variant("bfs_edges answers source == target by itself", BS, _v_bfs_edges_own_answer, "C11-O1"),
    M.Variant("dijkstra tests the goal before the cost limit (original defect)", DJ, _v_dj_goal_before_cost_cut, "C11-O2"),
    M.Variant("astar tests the goal before the cost limit (original defect)", AS, _v_as_goal_before_cost_cut, "C11-O2"),
    M.Variant("grid fast-fail scans the 4-neighbourhood in both modes (seed C11-A)", AS, _v_grid_fast_fail, "C11-O6"),

    M.Variant("dijkstra reports the goal when first discovered (push time)", DJ, _v_goal_on_push, "C11-O1"),
    M.Variant("dijkstra re-parents on equal distance", DJ, _v_non_strict, "C11-O1"),
    M.Variant("dijkstra heap ordered by edge cost", DJ, _v_key_edge_cost, "C11-O1"),
    M.Variant("astar claims OPTIMAL for any weight", AS, _v_astar_optimal_always, "C11-O2"),
    M.Variant("astar key drops g", AS, _v_astar_tiebreak, "C11-O1"),
    M.Variant("dijkstra answers INFEASIBLE on budget exhaustion", DJ, _v_infeasible_on_budget, "C11-O2"),
    M.Variant("dijkstra tells MAX_ITER from INFEASIBLE by the counter alone (original defect, ledger row 79)", DJ, _v_max_iter_by_counter("dijkstra", "heap"), "C11-O2"),
    M.Variant("astar tells MAX_ITER from INFEASIBLE by the counter alone (ledger row 79)", AS, _v_max_iter_by_counter("astar", "heap"), "C11-O2"),
    M.Variant("bfs tells MAX_ITER from INFEASIBLE by the counter alone (ledger row 79)", BS, _v_max_iter_by_counter("bfs", "queue"), "C11-O2"),
    M.Variant("dfs tells MAX_ITER from INFEASIBLE by the counter alone (ledger row 79)", BS, _v_max_iter_by_counter("dfs", "stack"), "C11-O2"),
    M.Variant("dijkstra counts leftover entries of closed nodes as waiting nodes", DJ, _v_no_drain, "C11-O2"),
    M.Variant("astar empties the whole heap before asking whether a node waits", AS, _v_drain_everything, "C11-O2"),
    M.Variant("bellman_ford runs n-2 rounds", BF, _v_bf_rounds, "C11-O4"),
    M.Variant("bellman_ford detection pass is non-strict", BF, _v_bf_detect_differs, "C11-O4"),
    M.Variant("floyd_warshall intermediate vertex in the middle loop", FW, _v_fw_k_inner, "C11-O5"),
    M.Variant("floyd_warshall keeps the last duplicate edge", FW, _v_fw_merge_last, "C11-O5"),
    M.Variant("bfs pops LIFO", BS, _v_bfs_lifo, "C11-O3"),
    M.Variant("bfs marks on pop", BS, _v_bfs_mark_on_pop, "C11-O3"),
    M.Variant("grid auto heuristic manhattan for 8 directions", AS, _v_grid_auto_manhattan, "C11-O6"),
    M.Variant("grid diagonal multiplier on axis moves", AS, _v_grid_diag_always, "C11-O6"),
    M.Variant("dfs labels its path OPTIMAL", BS, _v_dfs_optimal, "C11-O3"),
    M.Variant("twin: reformat dijkstra", DJ, _t_reformat, None),
    M.Variant("twin: reformat a_star", AS, _t_reformat, None),
    M.Variant("twin: reformat bfs", BS, _t_reformat, None),
    M.Variant("floyd_warshall relaxes only the cells above the diagonal when undirected (seed C11-C)", FW, _v_fw_upper_triangle, "C11-O5"),
    M.Variant("dijkstra's goal test is the bound method goal.__eq__ (seed C11-F)", DJ, _v_goal_bound_eq, "C11-G4"),
    M.Variant("floyd_warshall skips self loops when reading the edges (seed C12-E)", FW, _v_fw_skip_self_loops, "C11-O5"),
    M.Variant("dijkstra_edges stops after n pops, stale entries included (seed C11-G)", DJ, _v_dj_pop_budget, "C11-O1"),
    M.Variant("bellman_ford answers target == start before the detection pass (seed C11-H)", BF, _v_bf_trivial_query_shortcut, "C11-O4"),
    M.Variant("floyd_warshall zeroes the diagonal after reading the edges (seed C11-I)", FW, _v_fw_diag_after_edges, "C11-O5"),
    M.Variant("bfs without a goal labels the partial visited set OPTIMAL after a budget exit (original defect)", BS, _v_bfs_partial_set_optimal, "C11-O2"),
    M.Variant("bfs reads a falsy goal state (node 0) as 'no goal' (seed C12-L)", BS, _v_bfs_goal_truthiness, "C11-"),
    M.Variant("dijkstra counts every heap pop, stale entries included, against the budget (seed C11-N)", DJ, _v_dijkstra_counts_pops, "C11-O2"),
    M.Variant("twin: floyd_warshall i/j loops swapped", FW, _t_fw_swap_ij, None),
]
