"""Fact collectors shared by the rules: Result(...) constructions and their resolved status,
assignments by name, mutation effects, canonical expression forms."""

from __future__ import annotations

import ast
from dataclasses import dataclass

from .cfg import CFG, Node, cfg_of
from .index import Func, own_nodes

RESULT_FIELDS = ["solution", "objective", "iterations", "evaluations", "status", "error", "solutions"]
MUTATORS = {
    "append", "add", "remove", "pop", "insert", "update", "discard", "sort", "reverse", "clear",
    "extend", "popleft", "appendleft", "setdefault", "popitem", "difference_update", "intersection_update",
    "symmetric_difference_update", "__setitem__", "__delitem__",
}  # fmt: skip
HEAP_MUTATORS = {"heappush", "heappop", "heapify", "heapreplace", "heappushpop", "shuffle"}


def is_status(e: ast.AST) -> str | None:
    """'OPTIMAL' for `Status.OPTIMAL`."""
    if isinstance(e, ast.Attribute) and isinstance(e.value, ast.Name) and e.value.id == "Status":
        return e.attr
    return None


@dataclass
class ResultSite:
    func: Func
    call: ast.Call
    node: Node | None  # CFG node containing it
    statuses: frozenset  # resolved names, '?' when unknown, 'PASS:<expr>' when forwarded

    def arg(self, field: str) -> ast.AST | None:
        i = RESULT_FIELDS.index(field)
        if i < len(self.call.args):
            return self.call.args[i]
        for k in self.call.keywords:
            if k.arg == field:
                return k.value
        return None

    @property
    def lineno(self) -> int:
        return self.call.lineno


def assignments_to(fn_node: ast.AST, name: str) -> list[ast.AST]:
    """All value expressions assigned to bare name `name` in the function (own body)."""
    out = []
    for n in own_nodes(fn_node):
        if isinstance(n, ast.Assign):
            for t in n.targets:
                if isinstance(t, ast.Name) and t.id == name:
                    out.append(n.value)
                elif isinstance(t, (ast.Tuple, ast.List)):
                    for i, el in enumerate(t.elts):
                        if isinstance(el, ast.Name) and el.id == name:
                            if isinstance(n.value, (ast.Tuple, ast.List)) and len(n.value.elts) == len(t.elts):
                                out.append(n.value.elts[i])
                            else:
                                out.append(ast.Subscript(value=n.value, slice=ast.Constant(i), ctx=ast.Load()))
        elif isinstance(n, ast.AnnAssign) and isinstance(n.target, ast.Name) and n.target.id == name and n.value is not None:
            out.append(n.value)
        elif isinstance(n, ast.AugAssign) and isinstance(n.target, ast.Name) and n.target.id == name:
            out.append(n)
        elif isinstance(n, ast.NamedExpr) and isinstance(n.target, ast.Name) and n.target.id == name:
            out.append(n.value)
        elif isinstance(n, (ast.For, ast.comprehension)):
            for x in ast.walk(n.target):
                if isinstance(x, ast.Name) and x.id == name:
                    out.append(n)
    return out


def reaching_values(fn_node: ast.AST, at_stmt: ast.AST, name: str):
    """Value expressions of the plain assignments `name = e` that can reach the statement containing `at_stmt`
    (backward over the CFG; a path ends at the first statement that binds the name).  None when some reaching
    binding is not a plain single-name assignment (loop target, tuple unpacking, augmented assignment ...) or the
    statement is not in the CFG - the caller then falls back to all assignments of the function."""
    cfg = cfg_of(fn_node)
    start = cfg.stmt_node_containing(at_stmt)
    if start is None:
        return None
    from .guards import stores_of_node

    out, seen, work = [], set(), list(cfg.pred.get(start.id, []))
    while work:
        i = work.pop()
        if i in seen:
            continue
        seen.add(i)
        n = cfg.nodes[i]
        if name in stores_of_node(n):
            a = n.ast
            if isinstance(a, ast.Assign) and len(a.targets) == 1 and isinstance(a.targets[0], ast.Name) and a.targets[0].id == name:
                out.append(a.value)
                continue
            if isinstance(a, ast.AnnAssign) and isinstance(a.target, ast.Name) and a.target.id == name and a.value is not None:
                out.append(a.value)
                continue
            return None
        work.extend(cfg.pred.get(i, []))
    return out


def resolve_status_expr(e: ast.AST | None, fn_node: ast.AST, depth: int = 0, at: ast.AST | None = None) -> frozenset:
    if e is None:
        return frozenset({"OPTIMAL"})  # dataclass default
    s = is_status(e)
    if s:
        return frozenset({s})
    if isinstance(e, ast.IfExp):
        return resolve_status_expr(e.body, fn_node, depth, at) | resolve_status_expr(e.orelse, fn_node, depth, at)
    if isinstance(e, ast.Name) and depth < 4:
        vals = None
        if at is not None:
            try:
                vals = reaching_values(fn_node, at, e.id)
            except Exception:  # noqa: BLE001 - the flow-insensitive answer below is always available
                vals = None
        if not vals:
            vals = assignments_to(fn_node, e.id)
        if not vals:
            return frozenset({f"PASS:{e.id}"})
        out: frozenset = frozenset()
        for v in vals:
            out |= resolve_status_expr(v, fn_node, depth + 1) if isinstance(v, ast.expr) else frozenset({"?"})
        return out
    if isinstance(e, ast.Attribute) and e.attr == "status":
        return frozenset({f"PASS:{ast.unparse(e)}"})
    return frozenset({"?:" + ast.unparse(e)})


def result_sites(f: Func, ctor: str = "Result") -> list[ResultSite]:
    cfg = cfg_of(f.node)
    out = []
    for n in own_nodes(f.node):
        if isinstance(n, ast.Call) and isinstance(n.func, ast.Name) and n.func.id == ctor:
            star = any(isinstance(a, ast.Starred) for a in n.args) or any(k.arg is None for k in n.keywords)
            i = RESULT_FIELDS.index("status")
            e = n.args[i] if i < len(n.args) else next((k.value for k in n.keywords if k.arg == "status"), None)
            st = frozenset({"?"}) if star else resolve_status_expr(e, f.node, 0, n)
            out.append(ResultSite(f, n, cfg.stmt_node_containing(n), st))
    out.sort(key=lambda r: (r.call.lineno, r.call.col_offset))
    return out


def base_name(e: ast.AST) -> str | None:
    """Root variable of an access path x, x.a, x[i], x.a[i].b ..."""
    while isinstance(e, (ast.Attribute, ast.Subscript, ast.Starred)):
        e = e.value
    if isinstance(e, ast.Name):
        return e.id
    return None


def mutations(fn_node: ast.AST):
    """Yield (root name, kind, ast node) for every in-place mutation in the function's own body:
    subscript/attribute store, augmented assignment on those, del, mutator-method call, heap ops."""
    for n in own_nodes(fn_node):
        if isinstance(n, (ast.Assign, ast.AnnAssign, ast.AugAssign, ast.Delete, ast.For)):
            targets = []
            if isinstance(n, ast.Assign):
                targets = n.targets
            elif isinstance(n, ast.Delete):
                targets = n.targets
            elif isinstance(n, ast.For):
                targets = [n.target]
            else:
                targets = [n.target]
            for t in targets:
                for x in ast.walk(t):
                    if isinstance(x, (ast.Subscript, ast.Attribute)) and isinstance(x.ctx, (ast.Store, ast.Del)):
                        b = base_name(x)
                        if b:
                            yield b, "store", x
        elif isinstance(n, ast.Call):
            f = n.func
            if isinstance(f, ast.Attribute) and f.attr in MUTATORS:
                b = base_name(f.value)
                if b:
                    yield b, f"call:{f.attr}", n
            elif isinstance(f, ast.Name) and f.id in HEAP_MUTATORS and n.args:
                b = base_name(n.args[0])
                if b:
                    yield b, f"call:{f.id}", n


# -- canonical expressions ---------------------------------------------------------------

_COMM = (ast.Add, ast.Mult, ast.BitOr, ast.BitAnd, ast.BitXor)


def canon(e: ast.AST, rename: dict[str, str] | None = None) -> str:
    """Canonical text of an expression modulo renaming of names in `rename` and commutativity of + * min max."""
    rename = rename or {}

    def go(x: ast.AST) -> str:
        if isinstance(x, ast.Name):
            return rename.get(x.id, x.id)
        if isinstance(x, ast.Constant):
            return repr(x.value)
        if isinstance(x, ast.BinOp):
            l, r = go(x.left), go(x.right)
            if isinstance(x.op, _COMM):
                l, r = sorted((l, r))
            return f"({l} {type(x.op).__name__} {r})"
        if isinstance(x, ast.UnaryOp):
            return f"({type(x.op).__name__} {go(x.operand)})"
        if isinstance(x, ast.Compare):
            parts = [go(x.left)]
            for o, c in zip(x.ops, x.comparators):
                parts.append(type(o).__name__)
                parts.append(go(c))
            return "(" + " ".join(parts) + ")"
        if isinstance(x, ast.BoolOp):
            return "(" + f" {type(x.op).__name__} ".join(sorted(go(v) for v in x.values)) + ")"
        if isinstance(x, ast.Subscript):
            return f"{go(x.value)}[{go(x.slice)}]"
        if isinstance(x, ast.Attribute):
            return f"{go(x.value)}.{x.attr}"
        if isinstance(x, ast.Call):
            args = [go(a) for a in x.args]
            fn = go(x.func)
            if fn in ("min", "max"):
                args.sort()
            kws = sorted(f"{k.arg}={go(k.value)}" for k in x.keywords)
            return f"{fn}({', '.join(args + kws)})"
        if isinstance(x, (ast.Tuple, ast.List)):
            return "[" + ", ".join(go(v) for v in x.elts) + "]"
        if isinstance(x, ast.IfExp):
            return f"({go(x.body)} if {go(x.test)} else {go(x.orelse)})"
        if isinstance(x, ast.Slice):
            return ":".join(go(p) if p is not None else "" for p in (x.lower, x.upper, x.step))
        if isinstance(x, ast.Starred):
            return "*" + go(x.value)
        return ast.unparse(x)

    return go(e)


def contains_call_to(node: ast.AST, names: set[str]) -> bool:
    for c in ast.walk(node):
        if isinstance(c, ast.Call):
            f = c.func
            nm = f.id if isinstance(f, ast.Name) else (f.attr if isinstance(f, ast.Attribute) else None)
            if nm in names:
                return True
    return False


# -- status summaries of callees ----------------------------------------------------------


def tuple_return_statuses(repo, f: Func, index: int = 0, depth: int = 0) -> frozenset:
    """Status names a function can return at tuple position `index` (read from its own return statements;
    a returned variable is resolved through its assignments, including unpacked results of other such callees)."""
    out: set[str] = set()
    for n in own_nodes(f.node):
        if isinstance(n, ast.Return) and isinstance(n.value, ast.Tuple) and len(n.value.elts) > index:
            out |= _status_of_expr(repo, f, n.value.elts[index], depth)
    return frozenset(out)


def _status_of_expr(repo, f: Func, e: ast.AST, depth: int) -> set[str]:
    s = is_status(e)
    if s:
        return {s}
    if isinstance(e, ast.IfExp):
        return _status_of_expr(repo, f, e.body, depth) | _status_of_expr(repo, f, e.orelse, depth)
    if isinstance(e, ast.Name) and depth < 4:
        out: set[str] = set()
        found = False
        for n in own_nodes(f.node):
            if isinstance(n, ast.Assign):
                for t in n.targets:
                    if isinstance(t, ast.Name) and t.id == e.id:
                        found = True
                        out |= _status_of_expr(repo, f, n.value, depth + 1)
                    elif isinstance(t, ast.Tuple):
                        for i, el in enumerate(t.elts):
                            if isinstance(el, ast.Name) and el.id == e.id:
                                found = True
                                if isinstance(n.value, ast.Call):
                                    g = repo.resolve_call(f, n.value)
                                    if g is not None:
                                        out |= tuple_return_statuses(repo, g, i, depth + 1)
                                    else:
                                        out.add("?")
                                elif isinstance(n.value, ast.Tuple):
                                    out |= _status_of_expr(repo, f, n.value.elts[i], depth + 1)
                                else:
                                    out.add("?")
        return out if found else {"?"}
    if isinstance(e, ast.Attribute) and e.attr == "status":
        return {"PASS:" + ast.unparse(e)}
    return {"?"}


def loads_of(fn_node: ast.AST, name: str) -> list[ast.Name]:
    return [n for n in own_nodes(fn_node) if isinstance(n, ast.Name) and n.id == name and isinstance(n.ctx, ast.Load)]
