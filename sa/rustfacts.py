"""Tolerant lexer for the facts C12 needs from rust/src: #[pyfunction] names and pyo3 signatures,
dict.set_item("key", ..) per binding, wrap_pyfunction! registrations, enum Status discriminants."""

from __future__ import annotations

import os
import re

from .index import AnalysisError


def strip_comments(src: str) -> str:
    out = []
    i, n = 0, len(src)
    while i < n:
        c = src[i]
        if c == '"':
            j = i + 1
            while j < n and src[j] != '"':
                j += 2 if src[j] == "\\" else 1
            out.append(src[i : j + 1])
            i = j + 1
        elif src.startswith("//", i):
            j = src.find("\n", i)
            i = n if j < 0 else j
        elif src.startswith("/*", i):
            j = src.find("*/", i + 2)
            i = n if j < 0 else j + 2
        else:
            out.append(c)
            i += 1
    return "".join(out)


class RustFacts:
    def __init__(self, root: str):
        self.root = root
        base = os.path.join(root, "rust", "src")
        if not os.path.isdir(base):
            raise AnalysisError(f"rust sources missing: {base}")
        self.files: dict[str, str] = {}
        for d, _dirs, files in os.walk(base):
            for f in sorted(files):
                if f.endswith(".rs"):
                    p = os.path.join(d, f)
                    with open(p, encoding="utf-8") as fh:
                        self.files[os.path.relpath(p, root)] = strip_comments(fh.read())
        self.bindings: dict[str, dict] = {}
        self._scan_bindings()
        lib = self.files.get(os.path.join("rust", "src", "lib.rs"), "")
        self.registered = set(re.findall(r"wrap_pyfunction!\(\s*bindings::(\w+)", lib))
        self.status = self._status_enum()

    def _scan_bindings(self):
        for rel, src in self.files.items():
            if os.sep + "bindings" + os.sep not in rel:
                continue
            marks = [m.start() for m in re.finditer(r"#\[pyfunction\]", src)]
            for k, st in enumerate(marks):
                end = marks[k + 1] if k + 1 < len(marks) else len(src)
                chunk = src[st:end]
                m = re.search(r"pub\s+fn\s+(\w+)\s*\(", chunk)
                if not m:
                    continue
                name = m.group(1)
                sig = re.search(r"#\[pyo3\(\s*signature\s*=\s*\((.*?)\)\s*\)\]", chunk, re.S)
                params = []
                if sig:
                    for part in [x.strip() for x in sig.group(1).split(",") if x.strip()]:
                        if "=" in part:
                            nm, dv = part.split("=", 1)
                            params.append((nm.strip(), dv.strip()))
                        else:
                            params.append((part, None))
                keys = re.findall(r"\.set_item\(\s*\"(\w+)\"", chunk)
                line = src[:st].count("\n") + 1
                self.bindings[name] = {"file": rel, "line": line, "params": params, "keys": keys, "body": chunk}

    def _status_enum(self) -> dict[str, int]:
        src = self.files.get(os.path.join("rust", "src", "types.rs"), "")
        m = re.search(r"pub\s+enum\s+Status\s*\{(.*?)\}", src, re.S)
        out = {}
        if m:
            for nm, val in re.findall(r"(\w+)\s*=\s*(\d+)", m.group(1)):
                out[nm] = int(val)
        return out
