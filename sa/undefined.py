"""Possibly-undefined locals: a read of a local name reachable from function entry along a path that passes no
binding of that name (loop variables read after a loop that may run zero times are the typical instance)."""

from __future__ import annotations

import ast
import builtins

from .cfg import cfg_of
from .guards import stores_of_node
from .index import Func, own_nodes

_BUILTINS = set(dir(builtins))


def _reads_of_node(n) -> list[ast.Name]:
    a = n.ast
    if a is None or n.kind in ("branch", "def"):
        return []
    roots = [a]
    if n.kind == "for":
        roots = [a.iter]
    elif isinstance(a, (ast.With, ast.AsyncWith)):
        roots = [i.context_expr for i in a.items]
    elif isinstance(a, (ast.Try, ast.ExceptHandler)):
        return []
    out = []
    for r in roots:
        stack = [r]
        while stack:
            x = stack.pop()
            if isinstance(x, (ast.Lambda, ast.FunctionDef, ast.AsyncFunctionDef, ast.ClassDef)):
                continue
            if isinstance(x, (ast.ListComp, ast.SetComp, ast.DictComp, ast.GeneratorExp)):
                # comprehension targets are local to it: only the first iterable is evaluated outside
                stack.append(x.generators[0].iter)
                continue
            if isinstance(x, ast.Name) and isinstance(x.ctx, ast.Load):
                out.append(x)
            stack.extend(ast.iter_child_nodes(x))
    return out


def possibly_undefined(f: Func):
    """[(name, read Name node)]"""
    cfg = cfg_of(f.node)
    local_stores: dict[str, set[int]] = {}
    for n in cfg.nodes:
        site = n.id
        if n.kind == "for":
            # the loop target is bound only when an element is produced: attribute the store to the true branch
            tb = [i for i in cfg.succ[n.id] if cfg.nodes[i].kind == "branch" and cfg.nodes[i].pol is True]
            site = tb[0] if tb else n.id
        for nm in stores_of_node(n):
            local_stores.setdefault(nm, set()).add(site)
    params = set(f.params)
    declared = set()
    for n in own_nodes(f.node):
        if isinstance(n, (ast.Global, ast.Nonlocal)):
            declared |= set(n.names)
    out = []
    for n in cfg.nodes:
        if not cfg.reachable(n):
            continue
        for rd in _reads_of_node(n):
            nm = rd.id
            if nm in params or nm in declared or nm not in local_stores:
                continue
            defs = local_stores[nm]
            # an augmented assignment / walrus in the same node both reads and writes: treat other nodes only
            avoid = set(defs) - {n.id}
            if n.id in defs and isinstance(n.ast, ast.AugAssign):
                avoid = set(defs) - {n.id}
            # reachable from entry without passing a def?
            seen = {cfg.entry.id}
            work = [cfg.entry.id]
            hit = False
            while work and not hit:
                v = work.pop()
                for w in cfg.succ[v]:
                    if w == n.id:
                        hit = True
                        break
                    if w in seen or w in avoid:
                        continue
                    seen.add(w)
                    work.append(w)
            if hit and not (n.id in defs and not isinstance(n.ast, ast.AugAssign) and n.kind != "for"):
                out.append((nm, rd))
    return out
