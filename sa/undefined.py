"""Possibly-undefined locals: a read of a local name reachable from function entry along a path that passes no
binding of that name (loop variables read after a loop that may run zero times are the typical instance)."""

from __future__ import annotations

import ast
import builtins

from .cfg import cfg_of
from .guards import stores_of_node
from .index import Func, own_nodes

_BUILTINS = set(dir(builtins))


def _reads_of_node(n) -> list[ast.Name]:
    a = n.ast
    if a is None or n.kind in ("branch", "def"):
        return []
    roots = [a]
    if n.kind == "for":
        roots = [a.iter]
    elif isinstance(a, (ast.With, ast.AsyncWith)):
        roots = [i.context_expr for i in a.items]
    elif isinstance(a, (ast.Try, ast.ExceptHandler)):
        return []
    out = []
    for r in roots:
        stack = [r]
        while stack:
            x = stack.pop()
            if isinstance(x, (ast.Lambda, ast.FunctionDef, ast.AsyncFunctionDef, ast.ClassDef)):
                continue
            if isinstance(x, (ast.ListComp, ast.SetComp, ast.DictComp, ast.GeneratorExp)):
                # comprehension targets are local to it: only the first iterable is evaluated outside
                stack.append(x.generators[0].iter)
                continue
            if isinstance(x, ast.Name) and isinstance(x.ctx, ast.Load):
                out.append(x)
            stack.extend(ast.iter_child_nodes(x))
    return out


def possibly_undefined(f: Func):
    """[(name, read Name node)]"""
    cfg = cfg_of(f.node)
    local_stores: dict[str, set[int]] = {}
    for n in cfg.nodes:
        site = n.id
        if n.kind == "for":
            # the loop target is bound only when an element is produced: attribute the store to the true branch
            tb = [i for i in cfg.succ[n.id] if cfg.nodes[i].kind == "branch" and cfg.nodes[i].pol is True]
            site = tb[0] if tb else n.id
        for nm in stores_of_node(n):
            local_stores.setdefault(nm, set()).add(site)
    params = set(f.params)
    declared = set()
    for n in own_nodes(f.node):
        if isinstance(n, (ast.Global, ast.Nonlocal)):
            declared |= set(n.names)
    out = []
    for n in cfg.nodes:
        if not cfg.reachable(n):
            continue
        for rd in _reads_of_node(n):
            nm = rd.id
            if nm in params or nm in declared or nm not in local_stores:
                continue
            defs = local_stores[nm]
            # an augmented assignment / walrus in the same node both reads and writes: treat other nodes only
            avoid = set(defs) - {n.id}
            if n.id in defs and isinstance(n.ast, ast.AugAssign):
                avoid = set(defs) - {n.id}
            # reachable from entry without passing a def?
            seen = {cfg.entry.id}
            work = [cfg.entry.id]
            hit = False
            while work and not hit:
                v = work.pop()
                for w in cfg.succ[v]:
                    if w == n.id:
                        hit = True
                        break
                    if w in seen or w in avoid:
                        continue
                    seen.add(w)
                    work.append(w)
            if hit:
                out.append((nm, rd))
    return out


def _bound_names(fn_node: ast.AST) -> set[str]:
    """names bound in the function's own scope (not nested scopes): assignments, for/with/except targets, imports,
    nested def/class names, walrus, parameters"""
    out = set()
    a = fn_node.args
    for x in a.posonlyargs + a.args + a.kwonlyargs:
        out.add(x.arg)
    if a.vararg:
        out.add(a.vararg.arg)
    if a.kwarg:
        out.add(a.kwarg.arg)
    for p in getattr(fn_node, "type_params", []) or []:
        out.add(p.name)
    stack = list(fn_node.body)
    while stack:
        n = stack.pop()
        if isinstance(n, (ast.FunctionDef, ast.AsyncFunctionDef, ast.ClassDef)):
            out.add(n.name)
            continue
        if isinstance(n, ast.Lambda):
            continue
        if isinstance(n, ast.Name) and isinstance(n.ctx, (ast.Store, ast.Del)):
            out.add(n.id)
        elif isinstance(n, ast.ExceptHandler) and n.name:
            out.add(n.name)
        elif isinstance(n, ast.alias):
            out.add((n.asname or n.name).split(".")[0])
        elif isinstance(n, (ast.ListComp, ast.SetComp, ast.DictComp, ast.GeneratorExp)):
            # comprehension scope: its targets are not bound outside, but a walrus inside binds in the function
            for x in ast.walk(n):
                if isinstance(x, ast.NamedExpr) and isinstance(x.target, ast.Name):
                    out.add(x.target.id)
            continue
        stack.extend(ast.iter_child_nodes(n))
    return out


def undefined_names(f: Func, module_names: set[str]):
    """[(name, node)]: names read in f (own scope, comprehensions and lambdas included) that are bound nowhere: not in f,
    not in an enclosing function, not at module level, not a builtin.  Typically the only binding was deleted."""
    scopes = []
    g = f
    while g is not None:
        scopes.append(_bound_names(g.node))
        g = g.parent
    known = set().union(*scopes) | module_names | _BUILTINS
    if f.cls:
        known |= {"__class__"}
    out = []

    def walk(node, local):
        for n in ast.iter_child_nodes(node):
            if isinstance(n, (ast.FunctionDef, ast.AsyncFunctionDef, ast.ClassDef)):
                continue  # nested scopes are analysed as their own Func
            if isinstance(n, ast.Lambda):
                la = n.args
                walk(n, local | {x.arg for x in la.posonlyargs + la.args + la.kwonlyargs} | ({la.vararg.arg} if la.vararg else set()) | ({la.kwarg.arg} if la.kwarg else set()))
                continue
            if isinstance(n, (ast.ListComp, ast.SetComp, ast.DictComp, ast.GeneratorExp)):
                tg = set()
                for gen in n.generators:
                    for x in ast.walk(gen.target):
                        if isinstance(x, ast.Name):
                            tg.add(x.id)
                walk(n, local | tg)
                continue
            if isinstance(n, ast.Name) and isinstance(n.ctx, ast.Load) and n.id not in known and n.id not in local:
                out.append((n.id, n))
            walk(n, local)

    for st in f.node.body:
        walk(ast.Module(body=[st], type_ignores=[]), set())
    # decorators / defaults / annotations are evaluated in the enclosing scope: not checked here
    return out


def implicit_none_paths(f: Func):
    """True if f returns a value on some path and can also run off its end (returning None implicitly)."""
    rets = [n for n in own_nodes(f.node) if isinstance(n, ast.Return)]
    ann = f.node.returns
    promises = ann is not None and ast.unparse(ann) not in ("None", "NoReturn", "Never") and "None" not in ast.unparse(ann)
    if not promises and not any(r.value is not None and not (isinstance(r.value, ast.Constant) and r.value.value is None) for r in rets):
        return False
    if any(d for d in f.node.decorator_list if "abstractmethod" in ast.unparse(d) or "overload" in ast.unparse(d)):
        return False
    if any(isinstance(n, (ast.Yield, ast.YieldFrom)) for n in own_nodes(f.node)):
        return False
    cfg = cfg_of(f.node)
    for n in cfg.nodes:
        if n.kind == "return" and n.note == "implicit-end" and cfg.reachable(n):
            return True
    return False


def uninitialised_fields(f: Func):
    """[(field, return node)] for an `__init__`: fields `self.X` it assigns somewhere but not on every path to a
    normal return - a method reading the field then raises AttributeError for the objects built along that path"""
    cfg = cfg_of(f.node)
    me = f.params[0] if f.params else "self"
    stores: dict[str, set[int]] = {}
    for n in cfg.nodes:
        a = n.ast
        if a is None or n.kind in ("branch", "def"):
            continue
        tgts = []
        if isinstance(a, ast.Assign):
            tgts = a.targets
        elif isinstance(a, (ast.AnnAssign, ast.AugAssign)):
            tgts = [a.target] if not (isinstance(a, ast.AnnAssign) and a.value is None) else []
        for t in tgts:
            for x in (t.elts if isinstance(t, (ast.Tuple, ast.List)) else [t]):
                if isinstance(x, ast.Attribute) and isinstance(x.value, ast.Name) and x.value.id == me:
                    stores.setdefault(x.attr, set()).add(n.id)
    out = []
    for fld, defs in sorted(stores.items()):
        reach = cfg.forward(cfg.entry, avoid=defs)
        for n in cfg.nodes:
            if n.kind == "return" and n.id in reach:
                out.append((fld, n))
                break
    return out


def stride_conflicts(f: Func):
    """[(table name, [sets of names multiplied in its index computations], node)]: a list addressed as `t[a * s + b]`
    (directly or through `base = a * s`) must use one stride: if no name is common to all the products that index
    the same table, two sites lay the table out differently"""
    defs: dict[str, list] = {}
    for n in f.own_nodes():
        if isinstance(n, ast.Assign) and len(n.targets) == 1 and isinstance(n.targets[0], ast.Name):
            defs.setdefault(n.targets[0].id, []).append(n.value)

    def mults(e):
        return [frozenset(y.id for y in ast.walk(x) if isinstance(y, ast.Name)) for x in ast.walk(e) if isinstance(x, ast.BinOp) and isinstance(x.op, ast.Mult)]

    uses: dict[str, list] = {}
    for n in f.own_nodes():
        if isinstance(n, ast.Subscript) and isinstance(n.value, ast.Name) and not isinstance(n.slice, (ast.Name, ast.Constant, ast.Slice, ast.Tuple)):
            for y in ast.walk(n.slice):
                if isinstance(y, ast.Name) and y.id in defs:
                    for d in defs[y.id]:
                        m = mults(d)
                        if len(m) == 1:
                            uses.setdefault(n.value.id, []).append((m[0], n))
            ms = mults(n.slice)
            if len(ms) == 1:
                uses.setdefault(n.value.id, []).append((ms[0], n))
    out = []
    for t, us in uses.items():
        sets = [u[0] for u in us if u[0]]
        if len(sets) >= 2 and not frozenset.intersection(*sets):
            out.append((t, [sorted(x) for x in dict.fromkeys(sets)], us[0][1]))
    return out


def optional_truthiness(fn_node: ast.AST):
    """[(parameter, annotation, Name node)]: a parameter annotated `int | None`, `float | None` or `<type variable> |
    None` (a state, a node label) whose bare truthiness is tested - `if p:`, `p or d`, `x if p else y`, `not p`.
    0, 0.0 and any falsy state are legal values that such a test throws in with None."""
    a = fn_node.args
    tps = {t.name for t in getattr(fn_node, "type_params", [])}
    risky = {}
    for arg in a.posonlyargs + a.args + a.kwonlyargs:
        if arg.annotation is None:
            continue
        t = ast.unparse(arg.annotation)
        parts = [p_.strip() for p_ in t.split("|")]
        if "None" not in parts:
            continue
        if any(p_ in ("int", "float") or p_ in tps or (len(p_) <= 2 and p_.isupper()) or p_ in ("Node", "State") for p_ in parts if p_ != "None"):
            risky[arg.arg] = t
    if not risky:
        return []

    def bare(e):
        if isinstance(e, ast.Name) and e.id in risky:
            return [e]
        if isinstance(e, ast.UnaryOp) and isinstance(e.op, ast.Not):
            return bare(e.operand)
        if isinstance(e, ast.BoolOp):
            return [x for v in e.values for x in bare(v)]
        return []

    found = {}
    for n in ast.walk(fn_node):
        hits = []
        if isinstance(n, (ast.If, ast.While, ast.IfExp)):
            hits = bare(n.test)
        elif isinstance(n, ast.BoolOp):
            hits = [x for v in n.values[:-1] for x in bare(v)]
        elif isinstance(n, ast.comprehension):
            hits = [x for c in n.ifs for x in bare(c)]
        for h in hits:
            found[id(h)] = (h.id, risky[h.id], h)
    return list(found.values())


def iterables_consumed_twice(fn_node: ast.AST):
    """[(name, what it is, [lines])]: a parameter annotated `Iterable[..]`, or a local that holds the result of calling a
    parameter annotated `Callable[.., Iterable[..]]`, that is consumed more than once (loop, comprehension, or handed to
    a call).  A generator / map / filter object is empty the second time round."""
    a = fn_node.args
    iters, producers = set(), set()
    for arg in a.posonlyargs + a.args + a.kwonlyargs:
        if arg.annotation is None:
            continue
        t = ast.unparse(arg.annotation)
        if t.startswith("Iterable"):
            iters.add(arg.arg)
        elif t.startswith("Callable") and "Iterable" in t.rsplit(",", 1)[-1]:
            producers.add(arg.arg)
    held = {}
    for n in ast.walk(fn_node):
        if isinstance(n, ast.Assign) and len(n.targets) == 1 and isinstance(n.targets[0], ast.Name) and isinstance(n.value, ast.Call) and isinstance(n.value.func, ast.Name) and n.value.func.id in producers:
            held[n.targets[0].id] = n.value.func.id
    out = []
    for name in sorted(iters | set(held)):
        rebound = [n for n in ast.walk(fn_node) if isinstance(n, ast.Assign) and any(isinstance(t, ast.Name) and t.id == name for t in n.targets)]
        if name in iters and rebound:
            continue  # `nodes = list(nodes)`: from then on it is a list
        cons = []
        for n in ast.walk(fn_node):
            if isinstance(n, (ast.For, ast.comprehension)) and isinstance(n.iter, ast.Name) and n.iter.id == name:
                cons.append(getattr(n, "lineno", n.iter.lineno))
            elif isinstance(n, ast.Call) and not (isinstance(n.func, ast.Name) and n.func.id in ("isinstance", "type", "id")):
                for x in list(n.args) + [k.value for k in n.keywords]:
                    if isinstance(x, ast.Name) and x.id == name:
                        cons.append(n.lineno)
        if len(cons) > 1:
            out.append((name, "parameter annotated Iterable" if name in iters else f"result of the callback `{held[name]}`", sorted(cons)))
    return out


_COLLECTION_HINTS = ("Sequence", "list", "List", "dict", "Dict", "Mapping", "Iterable", "Collection", "set", "Set", "tuple", "Tuple", "Graph")
_COPY_CALLS = {"list", "tuple", "dict"}


def _is_preserving_copy(value: ast.AST, p: str) -> bool:
    """`value` is an element- and order-preserving copy of parameter `p`, possibly with a default for None / empty."""
    def is_p(e):
        return isinstance(e, ast.Name) and e.id == p

    def copy_of_p(e):
        if is_p(e):
            return True
        if isinstance(e, ast.Call) and isinstance(e.func, ast.Name) and e.func.id in _COPY_CALLS and len(e.args) == 1 and not e.keywords and is_p(e.args[0]):
            return True
        if isinstance(e, ast.Call) and isinstance(e.func, ast.Attribute) and e.func.attr == "copy" and is_p(e.func.value) and not e.args:
            return True
        if isinstance(e, ast.Call) and isinstance(e.func, ast.Attribute) and e.func.attr == "deepcopy" and len(e.args) == 1 and is_p(e.args[0]):
            return True
        if isinstance(e, (ast.ListComp, ast.GeneratorExp)) and len(e.generators) == 1 and not e.generators[0].ifs and is_p(e.generators[0].iter) and isinstance(e.generators[0].target, ast.Name):
            # [list(row) for row in p] / [row[:] for row in p] / [float(x) for x in p]
            t = e.generators[0].target.id
            el = e.elt
            if isinstance(el, ast.Name) and el.id == t:
                return True
            if isinstance(el, ast.Call) and isinstance(el.func, ast.Name) and el.func.id in _COPY_CALLS | {"float", "int"} and len(el.args) == 1 and isinstance(el.args[0], ast.Name) and el.args[0].id == t:
                return True
            if isinstance(el, ast.Subscript) and isinstance(el.value, ast.Name) and el.value.id == t and isinstance(el.slice, ast.Slice) and el.slice.lower is None and el.slice.upper is None and el.slice.step is None:
                return True
            return False
        if isinstance(e, ast.Call) and isinstance(e.func, ast.Name) and e.func.id in _COPY_CALLS and len(e.args) == 1 and isinstance(e.args[0], (ast.ListComp, ast.GeneratorExp)):
            return copy_of_p(e.args[0])
        return False

    def is_default(e):
        # a literal default that does not look at the parameter: [], {}, (), None, list(), dict()
        return not any(isinstance(x, ast.Name) and x.id == p for x in ast.walk(e))

    if copy_of_p(value):
        return True
    if isinstance(value, ast.IfExp):
        arms = [value.body, value.orelse]
        return any(copy_of_p(a) for a in arms) and all(copy_of_p(a) or is_default(a) for a in arms)
    if isinstance(value, ast.BoolOp) and isinstance(value.op, ast.Or):
        return copy_of_p(value.values[0]) and all(is_default(v) for v in value.values[1:])
    return False


def collection_params_rebound(fn_node: ast.AST):
    """[(param, statement)]: a parameter that carries a collection (by annotation, or because the function iterates,
    indexes or measures it) is rebound to something that is not an element- and order-preserving copy of itself."""
    a = fn_node.args
    params = {}
    for x in a.posonlyargs + a.args + a.kwonlyargs:
        if x.arg in ("self", "cls"):
            continue
        ann = ast.unparse(x.annotation) if x.annotation is not None else ""
        params[x.arg] = ann
    if not params:
        return []

    def own(n):
        for c in ast.iter_child_nodes(n):
            if isinstance(c, (ast.FunctionDef, ast.AsyncFunctionDef, ast.Lambda, ast.ClassDef)):
                continue
            yield c
            yield from own(c)

    nodes = list(own(fn_node))
    used_as_collection = set()
    for n in nodes:
        if isinstance(n, (ast.For, ast.comprehension)) and isinstance(n.iter, ast.Name):
            used_as_collection.add(n.iter.id)
        elif isinstance(n, ast.Subscript) and isinstance(n.value, ast.Name):
            used_as_collection.add(n.value.id)
        elif isinstance(n, ast.Call) and isinstance(n.func, ast.Name) and n.func.id in ("len", "zip", "enumerate", "sorted", "sum", "min", "max", "any", "all"):
            if n.func.id in ("min", "max") and len(n.args) > 1:
                continue  # min(a, b) / max(a, b) compare scalars
            for arg in n.args:
                if isinstance(arg, ast.Name):
                    used_as_collection.add(arg.id)
    out = []
    for n in nodes:
        if not isinstance(n, ast.Assign):
            continue
        for t in n.targets:
            names = [t] if isinstance(t, ast.Name) else ([e for e in t.elts if isinstance(e, ast.Name)] if isinstance(t, ast.Tuple) else [])
            for nm in names:
                if nm.id not in params:
                    continue
                ann = params[nm.id]
                coll = any(h in ann for h in _COLLECTION_HINTS) if ann else nm.id in used_as_collection
                if not coll:
                    continue
                if isinstance(t, ast.Name) and _is_preserving_copy(n.value, nm.id):
                    continue
                out.append((nm.id, n))
    return out
