"""R22 STUTTER-FREE: a path through a `while` body that leaves the loop state unchanged.

For each acyclic path head -> ... -> back-edge made only of pure assignments to plain names:
assume every variable whose last assignment on the path is a constant c already equals c on
entry (the only way that assignment is an identity), fold the other updates and the branch
conditions under this assumption; the path is a stutter if every update folds to the identity
and no condition folds to false.  Paths containing any call, mutation, inner loop, or
non-name store are treated as making progress (never reported).
"""

from __future__ import annotations

import ast
import operator

from .cfg import CFG, Node, cfg_of
from .index import Func

_BIN = {
    ast.Add: operator.add, ast.Sub: operator.sub, ast.Mult: operator.mul, ast.FloorDiv: operator.floordiv,
    ast.Mod: operator.mod, ast.LShift: operator.lshift, ast.RShift: operator.rshift, ast.BitOr: operator.or_,
    ast.BitAnd: operator.and_, ast.BitXor: operator.xor, ast.Pow: operator.pow,
}  # fmt: skip
_CMP = {
    ast.Lt: operator.lt, ast.LtE: operator.le, ast.Gt: operator.gt, ast.GtE: operator.ge,
    ast.Eq: operator.eq, ast.NotEq: operator.ne,
}  # fmt: skip
PURE_CALLS = {"len", "abs", "min", "max", "int", "float", "bool"}


class Sym:
    """symbolic value: ('const', c) | ('var', name) | ('op', text)"""

    __slots__ = ("kind", "v")

    def __init__(self, kind, v):
        self.kind, self.v = kind, v

    def __eq__(self, o):
        return isinstance(o, Sym) and self.kind == o.kind and self.v == o.v

    def __hash__(self):
        return hash((self.kind, self.v))

    def __repr__(self):
        return f"{self.v}" if self.kind != "op" else f"<{self.v}>"


def _is_pure(e: ast.AST) -> bool:
    for n in ast.walk(e):
        if isinstance(n, ast.Call):
            if not (isinstance(n.func, ast.Name) and n.func.id in PURE_CALLS):
                return False
        if isinstance(n, (ast.NamedExpr, ast.Await, ast.Yield, ast.YieldFrom)):
            return False
    return True


def ev(e: ast.AST, env: dict[str, Sym]) -> Sym:
    if isinstance(e, ast.Constant) and isinstance(e.value, (int, float, bool)) and not isinstance(e.value, complex):
        return Sym("const", e.value)
    if isinstance(e, ast.Name):
        return env.get(e.id, Sym("var", e.id))
    if isinstance(e, ast.UnaryOp):
        x = ev(e.operand, env)
        if x.kind == "const":
            if isinstance(e.op, ast.USub):
                return Sym("const", -x.v)
            if isinstance(e.op, ast.Not):
                return Sym("const", not x.v)
        return Sym("op", f"{type(e.op).__name__}({x!r})")
    if isinstance(e, ast.BinOp):
        l, r = ev(e.left, env), ev(e.right, env)
        f = _BIN.get(type(e.op))
        if l.kind == "const" and r.kind == "const" and f:
            try:
                return Sym("const", f(l.v, r.v))
            except Exception:
                pass
        # identities
        if r.kind == "const" and r.v == 0 and isinstance(e.op, (ast.Add, ast.Sub, ast.LShift, ast.RShift, ast.BitOr, ast.BitXor)):
            return l
        if l.kind == "const" and l.v == 0 and isinstance(e.op, (ast.Add, ast.BitOr, ast.BitXor)):
            return r
        if r.kind == "const" and r.v == 1 and isinstance(e.op, (ast.Mult, ast.FloorDiv, ast.Div, ast.Pow)):
            return l
        if l.kind == "const" and l.v == 1 and isinstance(e.op, ast.Mult):
            return r
        return Sym("op", f"({l!r} {type(e.op).__name__} {r!r})")
    if isinstance(e, ast.Compare) and len(e.ops) == 1:
        l, r = ev(e.left, env), ev(e.comparators[0], env)
        f = _CMP.get(type(e.ops[0]))
        if l.kind == "const" and r.kind == "const" and f:
            return Sym("const", f(l.v, r.v))
        if l == r and l.kind in ("var",):
            if isinstance(e.ops[0], (ast.Eq, ast.LtE, ast.GtE)):
                return Sym("const", True)
            if isinstance(e.ops[0], (ast.NotEq, ast.Lt, ast.Gt)):
                return Sym("const", False)
        return Sym("op", f"({l!r} {type(e.ops[0]).__name__} {r!r})")
    if isinstance(e, ast.BoolOp):
        vals = [ev(v, env) for v in e.values]
        if all(v.kind == "const" for v in vals):
            if isinstance(e.op, ast.And):
                return Sym("const", all(v.v for v in vals))
            return Sym("const", any(v.v for v in vals))
        if isinstance(e.op, ast.And) and any(v.kind == "const" and not v.v for v in vals):
            return Sym("const", False)
        if isinstance(e.op, ast.Or) and any(v.kind == "const" and v.v for v in vals):
            return Sym("const", True)
        return Sym("op", "bool(" + ",".join(map(repr, vals)) + ")")
    return Sym("op", ast.unparse(e))


def loop_paths(cfg: CFG, head: Node, limit: int = 5000):
    """Acyclic paths head -> ... -> head staying inside the natural loop."""
    body = cfg.loop_body(head)
    out = []
    stack = [(s, [head.id, s]) for s in cfg.succ[head.id] if s in body]
    while stack and len(out) < limit:
        v, p = stack.pop()
        for w in cfg.succ[v]:
            if w == head.id:
                out.append(p + [w])
            elif w in body and w not in p:
                stack.append((w, p + [w]))
    return out


def stutter_paths(f: Func, positive: set[str] = frozenset()):
    """Yield (while-node, path description) for every stutter path in f's own while loops.

    `positive`: integer variables assumed >= 1 (a stated domain assumption; the caller must justify it)."""
    cfg = cfg_of(f.node)
    heads = [n for n in cfg.nodes if n.kind == "test" and n.note == "while"]
    results = []
    for h in heads:
        if not cfg.reachable(h):
            continue
        for p in loop_paths(cfg, h):
            verdict = _path_is_stutter(cfg, h, p, positive)
            if verdict is not None:
                results.append((h, verdict))
    return heads, results


def _path_is_stutter(cfg: CFG, head: Node, path: list[int], positive=frozenset()):
    nodes = [cfg.nodes[i] for i in path[:-1]]
    assigns: list[tuple[str, ast.AST, ast.AST | None]] = []  # (name, value expr, augop)
    conds: list[tuple[ast.AST, bool]] = []
    for i, n in enumerate(nodes):
        if n.kind == "branch":
            if n.test.kind != "test" or getattr(n.test, "case", None) is not None:
                return None
            conds.append((n.test.ast, n.pol, len(assigns)))
            continue
        if n.kind == "test":
            if not _is_pure(n.ast):
                return None
            continue
        if n.kind in ("for", "def", "return", "raise"):
            return None
        a = n.ast
        if isinstance(a, (ast.Pass, ast.Continue)):
            continue
        if isinstance(a, ast.Assign) and len(a.targets) == 1 and isinstance(a.targets[0], ast.Name) and _is_pure(a.value):
            assigns.append((a.targets[0].id, a.value, None))
        elif isinstance(a, ast.AugAssign) and isinstance(a.target, ast.Name) and _is_pure(a.value):
            assigns.append((a.target.id, a.value, a.op))
        else:
            return None  # effectful statement: progress assumed
    # assumption: variables whose LAST assignment on the path is a constant hold that constant on entry
    env0: dict[str, Sym] = {}
    last: dict[str, tuple] = {}
    for name, val, op in assigns:
        last[name] = (val, op)
    for name, (val, op) in last.items():
        if op is None:
            c = ev(val, {})
            if c.kind == "const":
                env0[name] = c
    env = dict(env0)
    k = 0
    desc = []
    ci = 0
    # replay path in order, interleaving conditions at their positions
    conds_at: dict[int, list] = {}
    for t, pol, pos in conds:
        conds_at.setdefault(pos, []).append((t, pol))
    for pos in range(len(assigns) + 1):
        for t, pol in conds_at.get(pos, []):
            v = ev(t, env)
            if v.kind == "const" and bool(v.v) != pol:
                return None  # infeasible under the assumption
            if v.kind == "op" and _excluded_by_domain(t, pol, env, positive):
                return None  # only satisfiable outside the stated domain (variable >= 1)
        if pos < len(assigns):
            name, val, op = assigns[pos]
            if op is None:
                env[name] = ev(val, env)
            else:
                env[name] = ev(ast.BinOp(left=ast.Name(id=name, ctx=ast.Load()), op=op, right=val), env)
            desc.append(ast.unparse(ast.Assign(targets=[ast.Name(id=name, ctx=ast.Store())], value=val, lineno=0)) if op is None else f"{name} {type(op).__name__}= {ast.unparse(val)}")
    for name in last:
        init = env0.get(name, Sym("var", name))
        if env[name] != init:
            return None
    if not assigns:
        # no update at all: the loop test must be re-evaluated on the same state
        desc = ["<no state update>"]
    assumption = ", ".join(f"{k}={v!r}" for k, v in sorted(env0.items())) or "none"
    return f"path [{'; '.join(desc)}] is the identity under assumption {assumption}"


def _excluded_by_domain(t: ast.AST, pol: bool, env, positive) -> bool:
    """`x < c` (c <= 1) or `x <= c` (c < 1) for a variable assumed >= 1 cannot hold."""
    if not (isinstance(t, ast.Compare) and len(t.ops) == 1):
        return False
    l, r = ev(t.left, env), ev(t.comparators[0], env)
    op = type(t.ops[0])
    neg = {ast.Lt: ast.GtE, ast.LtE: ast.Gt, ast.Gt: ast.LtE, ast.GtE: ast.Lt, ast.Eq: ast.NotEq, ast.NotEq: ast.Eq}
    if op not in neg:
        return False
    if not pol:
        op = neg[op]
    if r.kind == "var" and l.kind == "const":
        l, r = r, l
        op = {ast.Lt: ast.Gt, ast.LtE: ast.GtE, ast.Gt: ast.Lt, ast.GtE: ast.LtE}.get(op, op)
    if l.kind == "var" and l.v in positive and r.kind == "const":
        c = r.v
        if op is ast.Lt and c <= 1:
            return True
        if op is ast.LtE and c < 1:
            return True
        if op is ast.Eq and c < 1:
            return True
    return False


def flag_loops_without_exit(f: Func):
    """[(while node, description)]: `while flag:` / `while not flag:` whose body binds the flag only to constants that
    keep the test true, with no break / return / raise inside - the loop cannot end once entered"""
    out = []
    for w in [n for n in f.own_nodes() if isinstance(n, ast.While)]:
        t, keep = w.test, True
        if isinstance(t, ast.UnaryOp) and isinstance(t.op, ast.Not):
            t, keep = t.operand, False
        if not isinstance(t, ast.Name):
            continue
        inner = [x for st in w.body for x in ast.walk(st)]
        if any(isinstance(x, (ast.Break, ast.Return, ast.Raise, ast.Yield, ast.YieldFrom)) for x in inner):
            continue
        if any(isinstance(x, (ast.FunctionDef, ast.Lambda)) for x in inner) and any(isinstance(x, ast.Nonlocal) and t.id in x.names for x in inner):
            continue
        binds = []
        opaque = False
        for x in inner:
            if isinstance(x, ast.Assign):
                for tg in x.targets:
                    for e in (tg.elts if isinstance(tg, (ast.Tuple, ast.List)) else [tg]):
                        if isinstance(e, ast.Name) and e.id == t.id:
                            if isinstance(tg, ast.Name) and isinstance(x.value, ast.Constant):
                                binds.append(bool(x.value.value))
                            else:
                                opaque = True
            elif isinstance(x, (ast.AugAssign, ast.AnnAssign, ast.NamedExpr)) and isinstance(x.target, ast.Name) and x.target.id == t.id:
                opaque = True
            elif isinstance(x, (ast.For, ast.comprehension)) and any(isinstance(e, ast.Name) and e.id == t.id for e in ast.walk(x.target)):
                opaque = True
        # only genuine flags: bound to constants in the loop, never used as an object (method call, argument, subscript)
        for x in inner:
            if isinstance(x, (ast.Attribute, ast.Subscript)) and isinstance(x.value, ast.Name) and x.value.id == t.id:
                opaque = True
            elif isinstance(x, ast.Call) and any(isinstance(a, ast.Name) and a.id == t.id for a in x.args):
                opaque = True
        if opaque or not binds:
            continue
        if all(b == keep for b in binds):
            out.append((w, f"`while {ast.unparse(w.test)}`: inside the loop `{t.id}` is only ever set to {keep if binds else 'nothing'} and there is no break or return"))
    return out
