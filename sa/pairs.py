"""R5 PAIRING: the pair discipline for (solution, objective) variables.

A *pair* (s, o) means "o holds evaluate(s)" (internal units).  Pairs are introduced by
    o = evaluate(s)                      -> (s, o)
    O = [evaluate(x) for x in S]         -> (S[*], O[*])   parallel arrays
    Rec(s, evaluate(s))                  -> (r.<f0>, r.<f1>) for every record r of that constructor
and propagated by *paired assignments*: one tuple assignment, or adjacent statements of one block,
whose right-hand sides form a known pair (copies x[:], x.copy(), list(x), tuple(x) of the solution allowed):
    a, b = s, o            a = s[:]; b = o        A[i] = s; B[i] = o
The check: every assignment to a member of the *published* pair must be a paired assignment from a known pair.
"""

from __future__ import annotations

import ast
from dataclasses import dataclass

from .index import Func, own_nodes


def strip_copy(e: ast.AST) -> tuple[ast.AST, bool]:
    """x[:] / x.copy() / list(x) / tuple(x) -> (x, True)"""
    if isinstance(e, ast.Subscript) and isinstance(e.slice, ast.Slice) and e.slice.lower is None and e.slice.upper is None and e.slice.step is None:
        return e.value, True
    if isinstance(e, ast.Call) and isinstance(e.func, ast.Attribute) and e.func.attr == "copy" and not e.args:
        return e.func.value, True
    if isinstance(e, ast.Call) and isinstance(e.func, ast.Name) and e.func.id in ("list", "tuple") and len(e.args) == 1:
        return e.args[0], True
    return e, False


def place(e: ast.AST) -> str:
    return ast.unparse(strip_copy(e)[0])


@dataclass
class Assignment:
    stmt: ast.stmt
    targets: list[ast.AST]  # flattened targets
    values: list[ast.AST]  # matching values (same length) or []
    block: list
    index: int


class PairAnalysis:
    def __init__(self, f: Func, evaluators: set[str], record_ctors: dict[str, tuple[str, str]] | None = None):
        self.f = f
        self.evaluators = evaluators
        self.record_ctors = record_ctors or {}
        self.pairs: set[tuple[str, str]] = set()
        self.why: dict[tuple[str, str], str] = {}
        self.assignments: list[Assignment] = []
        self._collect()
        self._seed()
        self._propagate()

    # -- helpers --------------------------------------------------------------------------
    def _is_eval(self, e: ast.AST):
        if isinstance(e, ast.Call) and isinstance(e.func, ast.Name) and e.func.id in self.evaluators and len(e.args) >= 1:
            return e.args[0]
        return None

    def _collect(self):
        for n in ast.walk(self.f.node):
            for fld in ("body", "orelse", "finalbody"):
                b = getattr(n, fld, None)
                if not isinstance(b, list):
                    continue
                if isinstance(n, (ast.FunctionDef, ast.AsyncFunctionDef)) and n is not self.f.node:
                    continue
                for i, s in enumerate(b):
                    if isinstance(s, ast.Assign) and len(s.targets) == 1:
                        t = s.targets[0]
                        if isinstance(t, ast.Tuple) and isinstance(s.value, ast.Tuple) and len(t.elts) == len(s.value.elts):
                            self.assignments.append(Assignment(s, list(t.elts), list(s.value.elts), b, i))
                        elif isinstance(t, ast.Tuple):
                            self.assignments.append(Assignment(s, list(t.elts), [], b, i))
                        else:
                            self.assignments.append(Assignment(s, [t], [s.value], b, i))
        # drop assignments inside nested function definitions
        nested = set()
        for n in ast.walk(self.f.node):
            if isinstance(n, (ast.FunctionDef, ast.AsyncFunctionDef, ast.Lambda)) and n is not self.f.node:
                for x in ast.walk(n):
                    nested.add(id(x))
        self.assignments = [a for a in self.assignments if id(a.stmt) not in nested]

    def add(self, s: str, o: str, why: str):
        if (s, o) not in self.pairs:
            self.pairs.add((s, o))
            self.why[(s, o)] = why
            return True
        return False

    def _seed(self):
        for a in self.assignments:
            for t, v in zip(a.targets, a.values):
                arg = self._is_eval(v)
                if arg is not None:
                    self.add(place(arg), ast.unparse(t), f"`{ast.unparse(t)} = evaluate({ast.unparse(arg)})`")
                # parallel arrays
                if isinstance(v, ast.ListComp) and len(v.generators) == 1:
                    arg2 = self._is_eval(v.elt)
                    g = v.generators[0]
                    if arg2 is not None and isinstance(g.target, ast.Name) and isinstance(arg2, ast.Name) and arg2.id == g.target.id:
                        self.add(ast.unparse(g.iter) + "[*]", ast.unparse(t) + "[*]", "parallel arrays built by evaluating every element")
                # records: [Rec(x, evaluate(x)) for x in xs] / Rec(x, evaluate(x))
                for c in ast.walk(v):
                    if isinstance(c, ast.Call) and isinstance(c.func, ast.Name) and c.func.id in self.record_ctors and len(c.args) == 2:
                        arg3 = self._is_eval(c.args[1])
                        if arg3 is not None and place(arg3) == place(c.args[0]):
                            f0, f1 = self.record_ctors[c.func.id]
                            self.add(f"<{c.func.id}>.{f0}", f"<{c.func.id}>.{f1}", "record constructed from a point and its evaluation")

    def _norm(self, e: ast.AST) -> str:
        """place text with array cells generalised: X[i] -> X[*]; record fields r.f -> <Rec>.f when all records are paired"""
        e0 = strip_copy(e)[0]
        if isinstance(e0, ast.Attribute) and self.record_ctors:
            for ctor, (f0, f1) in self.record_ctors.items():
                if e0.attr in (f0, f1):
                    return f"<{ctor}>.{e0.attr}"
        return ast.unparse(e0)

    def _cell(self, e: ast.AST) -> str | None:
        e0 = strip_copy(e)[0]
        if isinstance(e0, ast.Subscript) and not isinstance(e0.slice, ast.Slice):
            return ast.unparse(e0.value) + "[*]", ast.unparse(e0.slice)
        return None

    def is_pair(self, s: ast.AST, o: ast.AST) -> bool:
        ps, po = self._norm(s), self._norm(o)
        if (ps, po) in self.pairs:
            return True
        cs, co = self._cell(s), self._cell(o)
        if cs and co and cs[1] == co[1] and (cs[0], co[0]) in self.pairs:
            return True
        # record fields of the same record expression
        s0, o0 = strip_copy(s)[0], strip_copy(o)[0]
        if isinstance(s0, ast.Attribute) and isinstance(o0, ast.Attribute) and ast.unparse(s0.value) == ast.unparse(o0.value):
            return (self._norm(s0), self._norm(o0)) in self.pairs
        return False

    def _sibling_groups(self):
        """yield lists of (target, value) that are assigned 'together': one tuple assignment, or runs of adjacent
        single assignments in one block"""
        by_block: dict[int, list[Assignment]] = {}
        for a in self.assignments:
            if len(a.targets) > 1 and a.values:
                yield list(zip(a.targets, a.values)), a.stmt
            by_block.setdefault(id(a.block), []).append(a)
        for lst in by_block.values():
            lst.sort(key=lambda a: a.index)
            for x in lst:
                for y in lst:
                    if x is not y and 0 < y.index - x.index <= 2 and len(x.targets) == 1 and len(y.targets) == 1 and x.values and y.values:
                        yield [(x.targets[0], x.values[0]), (y.targets[0], y.values[0])], x.stmt

    def _propagate(self):
        changed = True
        while changed:
            changed = False
            for group, _ in self._sibling_groups():
                for (t1, v1) in group:
                    for (t2, v2) in group:
                        if t1 is t2:
                            continue
                        if self.is_pair(v1, v2):
                            k1, k2 = self._norm(t1), self._norm(t2)
                            c1, c2 = self._cell(t1), self._cell(t2)
                            if c1 and c2 and c1[1] == c2[1]:
                                k1, k2 = c1[0], c2[0]
                            if self.add(k1, k2, f"paired assignment from ({self._norm(v1)}, {self._norm(v2)})"):
                                changed = True

    # -- the check ------------------------------------------------------------------------
    def unexplained(self, sol: str, obj: str):
        """assignments to `sol` or `obj` (plain names) that are not part of a paired assignment from a known pair"""
        bad = []
        explained: set[int] = set()
        for group, stmt in self._sibling_groups():
            ts = {ast.unparse(t): (t, v) for t, v in group}
            if sol in ts and obj in ts and self.is_pair(ts[sol][1], ts[obj][1]):
                for a in self.assignments:
                    if any(t is ts[sol][0] or t is ts[obj][0] for t in a.targets):
                        explained.add(id(a.stmt))
        for a in self.assignments:
            for t, v in zip(a.targets, a.values or [None] * len(a.targets)):
                if ast.unparse(t) in (sol, obj) and id(a.stmt) not in explained:
                    # seed form `obj = evaluate(sol)` explains itself when sol is not reassigned in between
                    if ast.unparse(t) == obj and v is not None and self._is_eval(v) is not None and place(self._is_eval(v)) == sol:
                        continue
                    bad.append(a.stmt)
        # de-duplicate
        seen, out = set(), []
        for s in bad:
            if id(s) not in seen:
                seen.add(id(s))
                out.append(s)
        return out
