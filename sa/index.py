"""Repository index: modules, functions (with nested closures), classes, imports.

Parses /repo/solvor/**/*.py from the working tree on every run (no cache).
`overrides` lets the self-test analyse an in-memory variant of one module
without touching the disk: {relative path -> source text}.
"""

from __future__ import annotations

import ast
import os
from dataclasses import dataclass, field


class AnalysisError(Exception):
    """Anchor vanished / unrecognised shape / floor not met -> exit 2."""


@dataclass
class Func:
    module: "Module"
    qualname: str  # e.g. solve_sat.propagate, UnionFind.union
    node: ast.FunctionDef
    parent: "Func | None"
    cls: str | None
    children: dict = field(default_factory=dict)

    @property
    def name(self) -> str:
        return self.node.name

    @property
    def params(self) -> list[str]:
        a = self.node.args
        names = [x.arg for x in a.posonlyargs + a.args + a.kwonlyargs]
        if a.vararg:
            names.append(a.vararg.arg)
        if a.kwarg:
            names.append(a.kwarg.arg)
        return names

    def where(self, node: ast.AST | None = None) -> str:
        n = node if node is not None else self.node
        return f"{self.module.rel}:{getattr(n, 'lineno', 0)}"

    def own_nodes(self):
        """All AST nodes of this function body, not descending into nested defs/classes/lambdas."""
        return own_nodes(self.node)

    def decorators(self) -> list[str]:
        return [ast.unparse(d) for d in self.node.decorator_list]


def own_nodes(fn_node: ast.AST):
    """Walk the body of a function without entering nested function/class definitions."""
    stack = list(ast.iter_child_nodes(fn_node))
    # skip decorators/args/returns of the function itself: only body counts
    if isinstance(fn_node, (ast.FunctionDef, ast.AsyncFunctionDef)):
        stack = list(fn_node.body)
    while stack:
        n = stack.pop()
        yield n
        if isinstance(n, (ast.FunctionDef, ast.AsyncFunctionDef, ast.ClassDef, ast.Lambda)):
            continue
        stack.extend(ast.iter_child_nodes(n))


@dataclass
class Module:
    name: str  # solvor.sat
    rel: str  # solvor/sat.py
    path: str
    source: str
    tree: ast.Module
    funcs: dict = field(default_factory=dict)  # qualname -> Func
    classes: dict = field(default_factory=dict)  # name -> ClassDef
    imports: dict = field(default_factory=dict)  # local name -> (module, attr|None)


class Repo:
    def __init__(self, root: str = "/repo", overrides: dict | None = None, package: str = "solvor", derename: bool = True):
        self.root = root
        self.package = package
        self.overrides = overrides or {}
        self.modules: dict[str, Module] = {}
        self.derename = derename
        self.inlined_helpers: list[str] = []
        self.inline_bindings: list[tuple] = []
        self.renamed_units: list[str] = []  # functions analysed under their baseline local names (pure renames)
        self._load()

    # -- loading --------------------------------------------------------------------------
    def _load(self) -> None:
        pkg_dir = os.path.join(self.root, self.package)
        if not os.path.isdir(pkg_dir):
            raise AnalysisError(f"package directory missing: {pkg_dir}")
        paths = []
        for d, _dirs, files in os.walk(pkg_dir):
            _dirs[:] = sorted(x for x in _dirs if x != "__pycache__")
            for f in sorted(files):
                if f.endswith(".py"):
                    paths.append(os.path.join(d, f))
        for p in paths:
            rel = os.path.relpath(p, self.root)
            if rel in self.overrides:
                src = self.overrides[rel]
            else:
                with open(p, encoding="utf-8") as fh:
                    src = fh.read()
            try:
                tree = ast.parse(src, filename=rel)
            except SyntaxError as e:  # pragma: no cover
                raise AnalysisError(f"cannot parse {rel}: {e}") from e
            if self.derename:
                from .derename import baseline, derename
                from .inline import unextract

                from . import inline as _inl

                _inl.BINDINGS.clear()
                for q in unextract(rel, tree, baseline()):
                    self.inlined_helpers.append(f"{rel}::{q}")
                self.inline_bindings.extend((rel,) + b for b in dict.fromkeys(_inl.BINDINGS))
                for q in derename(rel, tree):
                    self.renamed_units.append(f"{rel}::{q}")
            name = rel[:-3].replace(os.sep, ".")
            if name.endswith(".__init__"):
                name = name[: -len(".__init__")]
            m = Module(name=name, rel=rel, path=p, source=src, tree=tree)
            self._index_module(m)
            self.modules[name] = m

    def _index_module(self, m: Module) -> None:
        def visit(body, prefix: str, parent: Func | None, cls: str | None):
            for n in body:
                if isinstance(n, (ast.FunctionDef, ast.AsyncFunctionDef)):
                    q = f"{prefix}{n.name}"
                    f = Func(m, q, n, parent, cls)
                    m.funcs[q] = f
                    if parent is not None:
                        parent.children[n.name] = f
                    visit_inner(n, q + ".", f, cls)
                elif isinstance(n, ast.ClassDef):
                    if parent is None and not prefix:
                        m.classes[n.name] = n
                    visit(n.body, f"{prefix}{n.name}.", parent, n.name)
                elif isinstance(n, (ast.If, ast.Try, ast.With, ast.For, ast.While)):
                    for fld in ("body", "orelse", "finalbody"):
                        visit(getattr(n, fld, []) or [], prefix, parent, cls)
                    for h in getattr(n, "handlers", []) or []:
                        visit(h.body, prefix, parent, cls)

        def visit_inner(fn: ast.AST, prefix: str, parent: Func, cls):
            # nested defs anywhere inside the function body (not inside deeper defs)
            stack = list(fn.body)
            while stack:
                n = stack.pop(0)
                if isinstance(n, (ast.FunctionDef, ast.AsyncFunctionDef)):
                    q = f"{prefix}{n.name}"
                    f = Func(m, q, n, parent, cls)
                    m.funcs[q] = f
                    parent.children[n.name] = f
                    visit_inner(n, q + ".", f, cls)
                elif isinstance(n, (ast.ClassDef, ast.Lambda)):
                    continue
                else:
                    stack = [c for c in ast.iter_child_nodes(n) if isinstance(c, (ast.stmt, ast.ExceptHandler, ast.match_case))] + stack

        visit(m.tree.body, "", None, None)
        for n in ast.walk(m.tree):
            if isinstance(n, ast.ImportFrom) and n.module:
                for a in n.names:
                    m.imports[a.asname or a.name] = (n.module, a.name)
            elif isinstance(n, ast.Import):
                for a in n.names:
                    m.imports[a.asname or a.name.split(".")[0]] = (a.name, None)

    # -- lookup ---------------------------------------------------------------------------
    def module(self, name: str) -> Module:
        full = name if name.startswith(self.package) else f"{self.package}.{name}"
        if full not in self.modules:
            raise AnalysisError(f"anchor module vanished: {full}")
        return self.modules[full]

    def func(self, module: str, qualname: str) -> Func:
        m = self.module(module)
        if qualname not in m.funcs:
            raise AnalysisError(f"anchor function vanished: {m.rel}::{qualname}")
        return m.funcs[qualname]

    def has_func(self, module: str, qualname: str) -> bool:
        full = module if module.startswith(self.package) else f"{self.package}.{module}"
        return full in self.modules and qualname in self.modules[full].funcs

    def resolve(self, m: Module, name: str, _depth: int = 0):
        """Resolve a module-level name to the Func it denotes inside the package (through re-exports)."""
        if _depth > 6:
            return None
        if name in m.funcs:
            return m.funcs[name]
        if name in m.imports:
            mod, attr = m.imports[name]
            if attr is None or mod not in self.modules:
                if mod in self.modules and attr is None:
                    return None
                # `from solvor.utils import X` where solvor.utils is a package
                if mod not in self.modules:
                    return None
            return self.resolve(self.modules[mod], attr, _depth + 1)
        return None

    def resolve_call(self, f: Func, call: ast.Call):
        """Callee Func for a call made inside f, resolved through closures, module, imports, self methods."""
        fn = call.func
        if isinstance(fn, ast.Name):
            g = f
            while g is not None:
                if fn.id in g.children:
                    return g.children[fn.id]
                g = g.parent
            return self.resolve(f.module, fn.id)
        if isinstance(fn, ast.Attribute) and isinstance(fn.value, ast.Name):
            if fn.value.id == "self" and f.cls:
                return f.module.funcs.get(f"{f.cls}.{fn.attr}")
            # ClassName.method or module.function
            q = f"{fn.value.id}.{fn.attr}"
            if q in f.module.funcs:
                return f.module.funcs[q]
            if fn.value.id in f.module.imports:
                mod, attr = f.module.imports[fn.value.id]
                target = mod if attr is None else f"{mod}.{attr}"
                if target in self.modules:
                    return self.modules[target].funcs.get(fn.attr)
        return None

    def all_funcs(self):
        for mn in sorted(self.modules):
            m = self.modules[mn]
            for q in sorted(m.funcs):
                yield m.funcs[q]

    def callees(self, f: Func, transitive: bool = True, include_nested: bool = True) -> list[Func]:
        seen: dict[tuple, Func] = {}
        work = [f]
        while work:
            g = work.pop()
            targets = []
            for n in g.own_nodes():
                if isinstance(n, ast.Call):
                    c = self.resolve_call(g, n)
                    if c is not None:
                        targets.append(c)
            if include_nested:
                targets.extend(g.children.values())
            for c in targets:
                key = (c.module.name, c.qualname)
                if key not in seen and c is not f:
                    seen[key] = c
                    if transitive:
                        work.append(c)
        return [seen[k] for k in sorted(seen)]


def calls_in(node: ast.AST, own: bool = True):
    it = own_nodes(node) if own else ast.walk(node)
    for n in it:
        if isinstance(n, ast.Call):
            yield n


def call_name(call: ast.Call) -> str:
    f = call.func
    if isinstance(f, ast.Name):
        return f.id
    if isinstance(f, ast.Attribute):
        return f.attr
    return ""


def dotted(e: ast.AST) -> str:
    try:
        return ast.unparse(e)
    except Exception:  # pragma: no cover
        return "?"
