"""AST-computed variants of a repository module for the rule self-test.

Every variant is computed from today's tree on every run (no frozen copies of repository
source): a locator finds the construct by role, a NodeTransformer edits it, `ast.unparse`
renders the module (which also re-formats it, so each variant doubles as a formatting twin).
A locator that finds nothing raises Skip: the variant is reported as skipped, not failed.
"""

from __future__ import annotations

import ast
import copy


class Skip(Exception):
    pass


def parse(src: str) -> ast.Module:
    return ast.parse(src)


def render(tree: ast.Module) -> str:
    ast.fix_missing_locations(tree)
    return ast.unparse(tree) + "\n"


def find_func(tree: ast.AST, qualname: str) -> ast.FunctionDef:
    parts = qualname.split(".")
    cur: ast.AST = tree
    for p in parts:
        nxt = None
        stack = list(ast.iter_child_nodes(cur))
        while stack:
            n = stack.pop(0)
            if isinstance(n, (ast.FunctionDef, ast.AsyncFunctionDef, ast.ClassDef)) and n.name == p:
                nxt = n
                break
            if not isinstance(n, (ast.FunctionDef, ast.AsyncFunctionDef, ast.ClassDef, ast.Lambda)):
                stack.extend(ast.iter_child_nodes(n))
        if nxt is None:
            raise Skip(f"function {qualname} not found")
        cur = nxt
    return cur  # type: ignore[return-value]


def replace_stmt(tree: ast.AST, pred, new_stmts, scope: ast.AST | None = None, count: int = 1) -> int:
    """Replace statements satisfying pred (within scope) by new_stmts (list, or callable old->list). Returns #replaced."""
    done = 0
    root = scope if scope is not None else tree
    for n in ast.walk(root):
        for fld in ("body", "orelse", "finalbody"):
            b = getattr(n, fld, None)
            if not isinstance(b, list):
                continue
            i = 0
            while i < len(b):
                s = b[i]
                if isinstance(s, ast.stmt) and done < count and pred(s):
                    rep = new_stmts(s) if callable(new_stmts) else new_stmts
                    rep = list(rep)
                    if not rep and len(b) == 1:
                        rep = [ast.Pass()]
                    b[i : i + 1] = rep
                    i += len(rep)
                    done += 1
                else:
                    i += 1
    if done == 0:
        raise Skip("statement to edit not found")
    return done


def replace_expr(tree: ast.AST, pred, new_expr, scope: ast.AST | None = None, count: int = 1) -> int:
    done = 0

    class T(ast.NodeTransformer):
        def generic_visit(self, node):
            nonlocal done
            node = super().generic_visit(node)
            if isinstance(node, ast.expr) and done < count and pred(node):
                done += 1
                return new_expr(node) if callable(new_expr) else copy.deepcopy(new_expr)
            return node

    root = scope if scope is not None else tree
    T().visit(root)
    if done == 0:
        raise Skip("expression to edit not found")
    return done


def insert(tree: ast.AST, anchor: str, new_text: str, after: bool = False, scope: ast.AST | None = None) -> None:
    """Insert the statements of `new_text` before (or after) the first statement whose source starts with `anchor`."""
    new = stmts(new_text)
    replace_stmt(tree, lambda s: ast.unparse(s).startswith(anchor), (lambda s: [s] + new) if after else (lambda s: new + [s]), scope=scope)


def src_is(node: ast.AST, text: str) -> bool:
    try:
        return ast.unparse(node) == text
    except Exception:
        return False


def src_has(node: ast.AST, text: str) -> bool:
    try:
        return text in ast.unparse(node)
    except Exception:
        return False


def expr(text: str) -> ast.expr:
    return ast.parse(text, mode="eval").body


def stmts(text: str) -> list[ast.stmt]:
    return ast.parse(text).body


def rename_local(fn: ast.AST, old: str, new: str):
    n = 0
    for x in ast.walk(fn):
        if isinstance(x, ast.Name) and x.id == old:
            x.id = new
            n += 1
        elif isinstance(x, ast.arg) and x.arg == old:
            x.arg = new
            n += 1
        elif isinstance(x, (ast.Nonlocal, ast.Global)) and old in x.names:
            x.names = [new if y == old else y for y in x.names]
            n += 1
    if n == 0:
        raise Skip(f"local {old} not found")


class Variant:
    """name, file, edit(tree) in place, expect = obligation id that must FAIL (None => twin: nothing may fail)."""

    def __init__(self, name: str, rel: str, edit, expect: str | None, why: str = ""):
        self.name, self.rel, self.edit, self.expect, self.why = name, rel, edit, expect, why

    def build(self, repo) -> dict:
        mod = next((m for m in repo.modules.values() if m.rel == self.rel), None)
        if mod is None:
            raise Skip(f"module {self.rel} missing")
        tree = ast.parse(mod.source)
        self.edit(tree)
        return {self.rel: render(tree)}
