"""Rule self-test: seeded-defect variants must be reported (naming the obligation), twins must stay silent.

Variants are computed in memory from the current tree (sa.mutate) and analysed through
Repo(overrides=...); nothing is written to disk and nothing of the repository is executed.
"""

from __future__ import annotations

import multiprocessing as mp
import traceback

from .index import AnalysisError, Repo
from .mutate import Skip, Variant
from .report import Ctx, load_known, run_module


def _one(args):
    prop, root, idx = args
    import importlib

    mod = importlib.import_module(f"checks.{prop.lower()}")
    repo = Repo(root)
    v: Variant = mod.VARIANTS[idx]
    try:
        ov = v.build(repo)
    except Skip as e:
        return (v.name, "skipped", str(e))
    except Exception as e:  # noqa: BLE001
        return (v.name, "skipped", f"variant construction failed: {type(e).__name__}: {e}")
    try:
        vrepo = Repo(root, overrides=ov)
        ctx = Ctx(prop, vrepo, "quick")
        run_module(mod, ctx)
        known = {k["key"] for k in load_known() if k.get("property") == prop and k.get("state") == "known"}
        failed = sorted({o.oid for o in ctx.failed() if o.key not in known})
        if not failed and ctx.aborted:
            raise AnalysisError(ctx.aborted)
        if not failed and ctx.floor_failures:
            raise AnalysisError("; ".join(ctx.floor_failures))
    except AnalysisError as e:
        if v.expect is None:
            return (v.name, "FAIL", f"twin ended in ANALYSIS-ERROR: {e}")
        # an unrecognisable shape is fail-closed (exit 2), accepted for seeded defects only if declared
        if v.expect == "ANALYSIS-ERROR":
            return (v.name, "ok", f"analysis error as expected: {e}")
        return (v.name, "FAIL", f"expected {v.expect} but analysis aborted: {e}")
    except Exception as e:  # noqa: BLE001
        return (v.name, "FAIL", f"internal error {type(e).__name__}: {e}\n{traceback.format_exc()[-400:]}")
    if v.expect is None:
        return (v.name, "ok" if not failed else "FAIL", "twin silent" if not failed else f"twin raised {failed}")
    if v.expect in failed or any(x.startswith(v.expect) for x in failed):
        return (v.name, "ok", f"reported {failed}")
    return (v.name, "FAIL", f"expected {v.expect}, reported {failed}")


def run(prop: str, mod, repo: Repo, jobs: int = 16) -> dict:
    variants = getattr(mod, "VARIANTS", [])
    if not variants:
        return {"summary": "no variants declared", "cases": [], "failed": []}
    tasks = [(prop, repo.root, i) for i in range(len(variants))]
    if jobs > 1 and len(tasks) > 2:
        with mp.get_context("fork").Pool(min(jobs, len(tasks))) as pool:
            res = pool.map(_one, tasks)
    else:
        res = [_one(t) for t in tasks]
    cases = [{"variant": n, "outcome": o, "detail": d, "expect": variants[i].expect or "silent (behaviour-preserving twin)", "why": variants[i].why} for i, (n, o, d) in enumerate(res)]
    failed = [f"{n}: {d}" for (n, o, d) in res if o == "FAIL"]
    nd = sum(1 for i, r in enumerate(res) if variants[i].expect and r[1] == "ok")
    nt = sum(1 for i, r in enumerate(res) if not variants[i].expect and r[1] == "ok")
    sk = sum(1 for r in res if r[1] == "skipped")
    return {"summary": f"{nd} seeded-defect variants reported, {nt} twins silent, {sk} skipped, {len(failed)} failed (of {len(res)})", "cases": cases, "failed": failed}
