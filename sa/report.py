"""Obligations, findings, known-findings file, evidence writer."""

from __future__ import annotations

import json
import os
import time
from dataclasses import dataclass, field

from .cfg import cfg_of
from .index import AnalysisError, Func, Repo

VERIF = os.path.dirname(os.path.dirname(os.path.abspath(__file__)))
KNOWN_FILE = os.path.join(VERIF, "known_findings.jsonl")


@dataclass
class Ob:
    prop: str
    oid: str  # e.g. C01-O2
    rule: str  # e.g. R24 STACK-DEPTH
    rel: str  # file
    func: str  # qualified function
    construct: str  # normalised role string (never a line number)
    ok: bool
    detail: str = ""
    lineno: int = 0
    severity: str = "violation"  # or 'note' (printed, never fails)

    @property
    def key(self) -> str:
        return f"{self.oid}|{self.rel}|{self.func}|{self.construct}"

    def site(self) -> str:
        return f"{self.rel}:{self.lineno}"

    def as_sample(self) -> dict:
        return {
            "obligation": self.oid,
            "rule": self.rule,
            "site": self.site(),
            "function": self.func,
            "construct": self.construct,
            "verdict": "discharged" if self.ok else ("note" if self.severity == "note" else "FAILED"),
            "detail": self.detail,
        }


class Ctx:
    def __init__(self, prop: str, repo: Repo, tier: str = "quick"):
        self.prop = prop
        self.repo = repo
        self.tier = tier
        self.obs: list[Ob] = []
        self.notes: list[str] = []
        self.analysed_funcs: dict[str, Func] = {}
        self.counters: dict[str, int] = {}
        self.assumptions: list[str] = []
        self.floor_failures: list[str] = []

    # -- anchors --------------------------------------------------------------------------
    def func(self, module: str, qualname: str) -> Func:
        f = self.repo.func(module, qualname)
        self.analysed_funcs[f"{f.module.rel}::{f.qualname}"] = f
        return f

    def touch(self, f: Func) -> Func:
        self.analysed_funcs[f"{f.module.rel}::{f.qualname}"] = f
        return f

    def step(self, fn, *args, **kw):
        """Run one part of a property's analysis.  A part that cannot interpret the code (vanished anchor, unknown shape)
        is recorded and the remaining parts still run: what they decide is kept, and the run ends in ANALYSIS-ERROR only
        if no part found a violation (see run_module)."""
        from .index import AnalysisError

        try:
            return fn(self, *args, **kw)
        except AnalysisError as e:
            self.step_aborts.append(str(e))
            return None
        except (AttributeError, IndexError, KeyError, TypeError, ValueError, StopIteration) as e:
            # the part met a shape it was not written for (e.g. `.elts` of something that is no tuple any more)
            self.step_aborts.append(f"{getattr(fn, '__name__', 'part')}: unexpected shape ({type(e).__name__}: {e})")
            return None

    def require(self, cond, msg: str):
        if not cond:
            raise AnalysisError(f"{self.prop}: {msg}")

    def floor(self, what: str, count: int, minimum: int):
        self.counters[what] = count
        if count < minimum:
            # evaluated by check.py after the obligations: a violation found on the same run is reported first
            self.floor_failures.append(f"instance count for '{what}' is {count}, below the confirmed floor {minimum}")

    def count(self, what: str, n: int = 1):
        self.counters[what] = self.counters.get(what, 0) + n

    # -- obligations ----------------------------------------------------------------------
    def ob(self, oid: str, rule: str, f: Func | None, construct: str, ok: bool, detail: str = "", node=None, severity: str = "violation", rel: str | None = None, fname: str | None = None) -> Ob:
        ln = getattr(node, "lineno", 0) if node is not None else (f.node.lineno if f is not None else 0)
        o = Ob(self.prop, oid, rule, rel or (f.module.rel if f else "?"), fname or (f.qualname if f else "?"), construct, bool(ok), detail, ln, severity)
        self.obs.append(o)
        if f is not None:
            self.touch(f)
        return o

    def note(self, text: str):
        self.notes.append(text)

    def assume(self, text: str):
        if text not in self.assumptions:
            self.assumptions.append(text)

    # -- outcome --------------------------------------------------------------------------
    def failed(self) -> list[Ob]:
        return [o for o in self.obs if not o.ok and o.severity == "violation"]


def load_known() -> list[dict]:
    out = []
    if os.path.exists(KNOWN_FILE):
        with open(KNOWN_FILE, encoding="utf-8") as fh:
            for line in fh:
                line = line.strip()
                if line and not line.startswith("#"):
                    out.append(json.loads(line))
    return out


def write_evidence(ctx: Ctx, known_hit: list[Ob], violations: list[Ob], wall: float, extra: dict | None = None, explanation: str = "", rule_text: str = "") -> str:
    os.makedirs(os.path.join(VERIF, "evidence"), exist_ok=True)
    path = os.path.join(VERIF, "evidence", f"{ctx.prop}.json")
    obs = sorted(ctx.obs, key=lambda o: (o.oid, o.rel, o.func, o.construct, o.lineno))
    distinct = sorted({o.key for o in obs})
    cfg_nodes = 0
    for f in ctx.analysed_funcs.values():
        try:
            cfg_nodes += len(cfg_of(f.node).nodes)
        except Exception:
            pass
    # samples: all failed/notes first then a spread of discharged ones
    failed = [o for o in obs if not o.ok]
    okd = [o for o in obs if o.ok]
    step = max(1, len(okd) // 25)
    samples = [o.as_sample() for o in failed] + [o.as_sample() for o in okd[::step]][:40]
    cov = {
        "explanation": explanation,
        "obligations": len(obs),
        "discharged": sum(1 for o in obs if o.ok),
        "evaluations": len(obs),
        "distinct_nontrivial": len(distinct),
        "rule": rule_text
        or "one evaluation per (obligation, site) pair decided on the AST/CFG of /repo's working tree; distinct = distinct (obligation, file, function, construct) keys that matched a real site",
        "samples": samples,
        "modules": sorted({f.module.rel for f in ctx.analysed_funcs.values()}),
        "functions": sorted(ctx.analysed_funcs),
        "cfg_nodes": cfg_nodes,
        "instance_counts": dict(sorted(ctx.counters.items())),
        "known_findings": [o.key for o in known_hit],
        "notes": ctx.notes,
        "checker_cmd": f"/venv/bin/python /verif/check.py {ctx.prop} --tier {ctx.tier}",
        "trusted_base": ["CPython ast", "sa/ engine (CFG, dominators, guard normalisation)", "per-property anchor tables in checks/"],
        "exhaustive": True,
    }
    if extra:
        cov.update(extra)
    ev = {
        "property_id": ctx.prop,
        "tier": ctx.tier,
        "seed": int(os.environ.get("VERIF_SEED", "0") or 0),
        "level": "other",
        "coverage": cov,
        "assumptions": ctx.assumptions,
        "wall_s": round(wall, 3),
        "violations": len(violations),
    }
    tmp = path + ".tmp"
    with open(tmp, "w", encoding="utf-8") as fh:
        json.dump(ev, fh, indent=1, sort_keys=True)
        fh.write("\n")
    os.replace(tmp, path)
    return path


def run_module(mod, ctx) -> None:
    """Run a property module.  If the property-specific part aborts because an anchor vanished or a shape is no
    longer recognised, the generic sweeps are still run and whatever obligations had been decided are kept: a
    violation found before (or besides) the abort is a violation, not an analysis error.  The abort reason is kept
    in ctx.aborted; with no violation recorded it makes the run end in ANALYSIS-ERROR (exit 2)."""
    from .index import AnalysisError

    ctx.aborted = None
    ctx.step_aborts = []
    try:
        mod.run(ctx)
        if ctx.step_aborts:
            raise AnalysisError("; ".join(dict.fromkeys(ctx.step_aborts)))
        if not getattr(ctx, "sweeps_done", False):
            from checks.common import generic_sweeps

            generic_sweeps(ctx)  # every property gets the generic sweeps over its anchor files
    except Exception as e:  # noqa: BLE001
        # an AnalysisError is a part that cannot read the code; any other exception is a check tripping over a shape
        # it did not expect - both mean "this part decides nothing", neither may turn decided violations into a pass
        ctx.aborted = str(e) if isinstance(e, AnalysisError) else f"internal error {type(e).__name__}: {e}"
        if not getattr(ctx, "sweeps_done", False):
            from checks.common import generic_sweeps

            try:
                generic_sweeps(ctx)
            except Exception:  # noqa: BLE001
                pass
