
from .blocktext import install as _install_blocktext

_install_blocktext()
