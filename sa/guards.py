"""Branch conditions normalised to atoms, and guard queries on a CFG.

An atom is a canonical string.  Comparisons are canonicalised (operands of > / >= swapped,
== / != operands ordered, `not` pushed inwards); conjunctions on the true branch and
disjunctions on the false branch are split.  Anything else becomes an opaque atom
`T:<expr>` / `F:<expr>`.
"""

from __future__ import annotations

import ast

from .cfg import CFG, Node

_NEG = {
    ast.Lt: ast.GtE,
    ast.LtE: ast.Gt,
    ast.Gt: ast.LtE,
    ast.GtE: ast.Lt,
    ast.Eq: ast.NotEq,
    ast.NotEq: ast.Eq,
    ast.Is: ast.IsNot,
    ast.IsNot: ast.Is,
    ast.In: ast.NotIn,
    ast.NotIn: ast.In,
}
_SYM = {ast.Lt: "<", ast.LtE: "<=", ast.Eq: "==", ast.NotEq: "!=", ast.Is: "is", ast.IsNot: "is not", ast.In: "in", ast.NotIn: "not in"}


def _u(e: ast.AST) -> str:
    return ast.unparse(e)


def _cmp_atom(left: ast.AST, op: type, right: ast.AST) -> str:
    if op is ast.Gt:
        left, right, op = right, left, ast.Lt
    elif op is ast.GtE:
        left, right, op = right, left, ast.LtE
    l, r = _u(left), _u(right)
    if op in (ast.Eq, ast.NotEq) and r < l:
        l, r = r, l
    return f"{l} {_SYM[op]} {r}"


def atoms(test: ast.AST, pol: bool) -> set[str]:
    """Atoms known to hold when `test` evaluated to `pol`."""
    if isinstance(test, ast.UnaryOp) and isinstance(test.op, ast.Not):
        return atoms(test.operand, not pol)
    if isinstance(test, ast.BoolOp):
        if isinstance(test.op, ast.And) and pol:
            return set().union(*(atoms(v, True) for v in test.values))
        if isinstance(test.op, ast.Or) and not pol:
            return set().union(*(atoms(v, False) for v in test.values))
        # disjunction known true / conjunction known false: one opaque atom over sorted member atoms
        parts = sorted("&".join(sorted(atoms(v, pol))) for v in test.values)
        return {("OR(" if pol else "NAND(") + " | ".join(parts) + ")"}
    if isinstance(test, ast.Compare):
        if len(test.ops) == 1:
            op = type(test.ops[0])
            if not pol:
                op = _NEG[op]
            return {_cmp_atom(test.left, op, test.comparators[0])}
        if pol:
            out = set()
            left = test.left
            for o, c in zip(test.ops, test.comparators):
                out.add(_cmp_atom(left, type(o), c))
                left = c
            return out
        return {"F:" + _u(test)}
    if isinstance(test, ast.Constant):
        return set()
    if isinstance(test, ast.NamedExpr):
        return {("T:" if pol else "F:") + _u(test.target)} | {("T:" if pol else "F:") + _u(test.value)}
    return {("T:" if pol else "F:") + _u(test)}


def names_in(e: ast.AST) -> set[str]:
    return {n.id for n in ast.walk(e) if isinstance(n, ast.Name)}


def stores_of_node(n: Node) -> set[str]:
    """Names (and attribute/subscript bases as 'base[]'/'base.attr') a CFG node may (re)bind."""
    a = n.ast
    out: set[str] = set()
    if a is None or n.kind in ("branch",):
        return out
    roots: list[ast.AST]
    if n.kind == "for":
        roots = [a.target]
        for x in ast.walk(a.target):
            if isinstance(x, ast.Name):
                out.add(x.id)
        return out
    if n.kind == "def":
        out.add(a.name)
        return out
    if isinstance(a, (ast.With, ast.AsyncWith)):
        roots = [i.optional_vars for i in a.items if i.optional_vars is not None]
    elif isinstance(a, (ast.Try,)):
        return out
    elif isinstance(a, ast.ExceptHandler):
        if a.name:
            out.add(a.name)
        return out
    else:
        roots = [a]
    for r in roots:
        for x in ast.walk(r):
            if isinstance(x, ast.Name) and isinstance(x.ctx, (ast.Store, ast.Del)):
                out.add(x.id)
            elif isinstance(x, ast.NamedExpr) and isinstance(x.target, ast.Name):
                out.add(x.target.id)
    return out


class GuardView:
    """Guard queries for one function CFG."""

    def __init__(self, cfg: CFG, closure_writes: dict[str, set[str]] | None = None):
        self.cfg = cfg
        # names written by nested closures via nonlocal, keyed by closure name; a call to the
        # closure between a test and a use invalidates atoms over those names
        self.closure_writes = closure_writes or {}
        self._raise_tests = None

    def guard_atoms(self, n: Node, stable_only: bool = True, after_loops: bool = True) -> set[str]:
        """after_loops=False drops the exit conditions of loops that ended before n (`F:stack` after `while stack:`):
        they hold at n but do not *select* n."""
        out: set[str] = set()
        for b in self.cfg.guards(n):
            t = b.test
            if not after_loops and not b.pol and (t.kind == "for" or getattr(t, "note", "") == "while"):
                continue
            if not after_loops and self._is_validation(b):
                continue  # `if bad_input: raise ...` holds on every path that goes on, it does not select n either
            if t.kind == "for":
                out.add(("IN-LOOP:" if b.pol else "AFTER-LOOP:") + _u(t.ast.iter))
                continue
            if getattr(t, "case", None) is not None:
                out.add(("CASE:" if b.pol else "NOT-CASE:") + _u(t.ast))
                continue
            test = t.ast
            ats = atoms(test, b.pol)
            if stable_only:
                killed = self._killed(b, n)
                ats = {a for a in ats if not (self._atom_names(a, test) & killed)}
            out |= ats
        return out

    def _is_validation(self, b: Node) -> bool:
        """b is the surviving branch of a test whose other branch only raises"""
        if self._raise_tests is None:
            self._raise_tests = {}
            root = self.cfg.fn if hasattr(self.cfg, "fn") else None
            if root is not None:
                for x in ast.walk(root):
                    if isinstance(x, ast.If):
                        if x.body and all(isinstance(y, ast.Raise) for y in x.body) and not x.orelse:
                            self._raise_tests[id(x.test)] = False  # surviving polarity
                        elif x.orelse and all(isinstance(y, ast.Raise) for y in x.orelse):
                            self._raise_tests[id(x.test)] = True
        pol = self._raise_tests.get(id(b.test.ast))
        return pol is not None and pol == b.pol

    def _atom_names(self, atom: str, test: ast.AST) -> set[str]:
        ns = names_in(test)
        return {x for x in ns if x in atom}

    def _killed(self, b: Node, n: Node) -> set[str]:
        """Names possibly rebound on some path from branch b to node n (not re-passing b)."""
        cfg = self.cfg
        mid = cfg.forward(b, avoid={b.id}) & (cfg.backward(n, avoid={b.id}))
        killed: set[str] = set()
        for i in mid:
            m = cfg.nodes[i]
            killed |= stores_of_node(m)
            if m.ast is not None and m.kind not in ("branch", "def"):
                for c in ast.walk(m.ast) if m.kind != "for" else ast.walk(m.ast.iter):
                    if isinstance(c, ast.Call) and isinstance(c.func, ast.Name) and c.func.id in self.closure_writes:
                        killed |= self.closure_writes[c.func.id]
        return killed


def closure_nonlocal_writes(fn_node: ast.AST) -> dict[str, set[str]]:
    """{nested function name -> names it rebinds through `nonlocal`} (transitively through nested calls)."""
    direct: dict[str, set[str]] = {}
    callsin: dict[str, set[str]] = {}
    for n in ast.walk(fn_node):
        if isinstance(n, (ast.FunctionDef, ast.AsyncFunctionDef)) and n is not fn_node:
            nl: set[str] = set()
            for x in ast.walk(n):
                if isinstance(x, ast.Nonlocal):
                    nl |= set(x.names)
            written = set()
            for x in ast.walk(n):
                if isinstance(x, ast.Name) and isinstance(x.ctx, ast.Store) and x.id in nl:
                    written.add(x.id)
            direct[n.name] = written
            callsin[n.name] = {c.func.id for c in ast.walk(n) if isinstance(c, ast.Call) and isinstance(c.func, ast.Name)}
    changed = True
    while changed:
        changed = False
        for f, cs in callsin.items():
            for c in cs:
                if c in direct and not direct[c] <= direct[f]:
                    direct[f] |= direct[c]
                    changed = True
    return direct


def atom_of(text: str, pol: bool = True) -> str:
    """Canonical atom for a condition written as source text (exactly one atom expected)."""
    a = atoms(ast.parse(text, mode="eval").body, pol)
    assert len(a) == 1, (text, a)
    return next(iter(a))


def or_parts(atom: str) -> list[str]:
    if atom.startswith("OR(") and atom.endswith(")"):
        return atom[3:-1].split(" | ")
    return []


def in_loop(n: Node, head: Node) -> bool:
    l = n.loop
    while l is not None:
        if l is head:
            return True
        l = l.loop
    return False
