"""Nesting-tolerant text containment for unparsed code.

Many obligations are stated as a small group of statements that must be present ("if c:\\n    a\\n    b").  Comparing
such a group against `ast.unparse` text by plain substring makes the comparison depend on the nesting depth of the
group, so wrapping the code in one more block (a single-exit rewrite, a `with`, a `try`) would look like a change.
`BlockText` is a `str` whose `in` / `count` compare a multi-line fragment *relative to its own first line*: the group
matches wherever the same lines occur consecutively with the same relative indentation.  Block membership is still
checked (a statement moved out of its `if` no longer matches); only the absolute depth is ignored.  Single-line
fragments behave exactly like `str`.  `install()` makes `ast.unparse` return BlockText."""

from __future__ import annotations

import ast


def _lines(text: str):
    out = []
    for ln in text.split("\n"):
        s = ln.lstrip(" ")
        out.append((len(ln) - len(s), s))
    return out


def find_block(text: str, frag: str) -> int:
    """number of places where the lines of `frag` occur consecutively in `text` with the same relative indentation"""
    fl = _lines(frag.strip("\n"))
    if not fl:
        return 0
    tl = _lines(text)
    # the fragment may have been written starting in the middle of a line (its first line then carries no indentation
    # although it sits at some depth): try every plausible depth for the first line
    bases = [fl[0][0]] if fl[0][0] else sorted({0} | {i for i, s in fl[1:] if s} | {max(0, i - 4) for i, s in fl[1:] if s})
    best = 0
    for base in bases:
        rel = [(i - base if k else 0, s) for k, (i, s) in enumerate(fl)]
        n = 0
        for j in range(len(tl) - len(rel) + 1):
            if tl[j][1] != rel[0][1]:
                continue
            d = tl[j][0]
            if all(tl[j + k][1] == rel[k][1] and (rel[k][1] == "" or tl[j + k][0] == d + rel[k][0]) for k in range(len(rel))):
                n += 1
        best = max(best, n)
    return best


class BlockText(str):
    def __contains__(self, frag) -> bool:  # type: ignore[override]
        if isinstance(frag, str) and "\n" in frag and frag.strip("\n") and "\n" in frag.strip("\n"):
            lead = len(frag) - len(frag.lstrip(" "))
            # a fragment that starts or ends in the middle of a line cannot be compared line by line
            if str.__contains__(self, frag):
                return True
            return find_block(self, frag) > 0
        return str.__contains__(self, frag)

    def count(self, frag, *a):  # type: ignore[override]
        if not a and isinstance(frag, str) and "\n" in frag.strip("\n"):
            return max(str.count(self, frag), find_block(self, frag))
        return str.count(self, frag, *a)


_installed = False


def install() -> None:
    global _installed
    if _installed:
        return
    _orig = ast.unparse

    def unparse(node):
        return BlockText(_orig(node))

    ast.unparse = unparse
    _installed = True
