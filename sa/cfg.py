"""Per-function control-flow graph with branch-edge nodes, dominators and path queries.

One node per simple statement / branch test.  Every outgoing edge of a test is split by a
synthetic *branch node* (kind 'branch', .test = the test node, .pol = True/False), so that
"edge dominance" is ordinary node dominance and guards can be read off the dominator set.
"""

from __future__ import annotations

import ast
from dataclasses import dataclass, field


@dataclass
class Node:
    id: int
    kind: str  # entry exit stmt test for branch return raise def loopexit
    ast: ast.AST | None = None
    test: "Node | None" = None  # for branch nodes
    pol: bool | None = None  # for branch nodes
    loop: "Node | None" = None  # innermost enclosing loop head (test/for node)
    note: str = ""

    @property
    def lineno(self) -> int:
        return getattr(self.ast, "lineno", 0) if self.ast is not None else (self.test.lineno if self.test else 0)

    def __hash__(self):
        return self.id

    def __repr__(self):
        src = ""
        if self.ast is not None:
            try:
                src = ast.unparse(self.ast).split("\n")[0][:60]
            except Exception:
                src = type(self.ast).__name__
        if self.kind == "branch":
            return f"<{self.id} branch {self.pol} of {self.test.id}>"
        return f"<{self.id} {self.kind} L{self.lineno} {src}>"


class CFG:
    def __init__(self, fn: ast.AST):
        self.fn = fn
        self.nodes: list[Node] = []
        self.succ: dict[int, list[int]] = {}
        self.pred: dict[int, list[int]] = {}
        self.back_edges: set[tuple[int, int]] = set()
        self.entry = self._new("entry")
        self.exit = self._new("exit")
        self._loops: list[tuple[Node, list, list]] = []  # (head, break sources, continue sources)
        body = fn.body if hasattr(fn, "body") and isinstance(fn.body, list) else [fn]
        outs = self._seq(body, [self.entry])
        for o in outs:  # implicit end (falls off the function)
            n = self._new("return", None, note="implicit-end")
            self._edge(o, n)
            self._edge(n, self.exit)
        self._dom = None
        self._pdom = None
        self.by_ast = {id(n.ast): n for n in self.nodes if n.ast is not None and n.kind != "branch"}

    # -- construction ---------------------------------------------------------------------
    def _new(self, kind, a=None, **kw) -> Node:
        n = Node(len(self.nodes), kind, a, **kw)
        n.loop = self._loops[-1][0] if getattr(self, "_loops", None) else None
        self.nodes.append(n)
        self.succ[n.id] = []
        self.pred[n.id] = []
        return n

    def _edge(self, a: Node, b: Node):
        if b.id not in self.succ[a.id]:
            self.succ[a.id].append(b.id)
            self.pred[b.id].append(a.id)

    def _branch(self, test: Node, pol: bool) -> Node:
        b = self._new("branch", None, test=test, pol=pol)
        b.loop = test.loop
        self._edge(test, b)
        return b

    def _seq(self, stmts, ins: list[Node]) -> list[Node]:
        cur = ins
        for s in stmts:
            cur = self._stmt(s, cur)
        return cur

    def _join(self, ins: list[Node], n: Node):
        for i in ins:
            self._edge(i, n)

    @staticmethod
    def _const_truth(e: ast.AST):
        if isinstance(e, ast.Constant):
            return bool(e.value)
        return None

    def _stmt(self, s: ast.stmt, ins: list[Node]) -> list[Node]:
        if isinstance(s, ast.If):
            t = self._new("test", s.test)
            self._join(ins, t)
            bt = self._branch(t, True)
            bf = self._branch(t, False)
            out_t = self._seq(s.body, [bt])
            out_f = self._seq(s.orelse, [bf]) if s.orelse else [bf]
            return out_t + out_f
        if isinstance(s, ast.While):
            t = self._new("test", s.test, note="while")
            self._join(ins, t)
            self._loops.append((t, [], []))
            t_loop_self = t
            bt = self._branch(t, True)
            bt.loop = t_loop_self
            outs = self._seq(s.body, [bt])
            _, breaks, conts = self._loops.pop()
            for o in outs + conts:
                self._edge(o, t)
                self.back_edges.add((o.id, t.id))
            after: list[Node] = []
            if self._const_truth(s.test) is not True:
                bf = self._branch(t, False)
                after = self._seq(s.orelse, [bf]) if s.orelse else [bf]
            return after + breaks
        if isinstance(s, (ast.For, ast.AsyncFor)):
            t = self._new("for", s, note="for")
            self._join(ins, t)
            self._loops.append((t, [], []))
            bt = self._branch(t, True)
            bt.loop = t
            outs = self._seq(s.body, [bt])
            _, breaks, conts = self._loops.pop()
            for o in outs + conts:
                self._edge(o, t)
                self.back_edges.add((o.id, t.id))
            bf = self._branch(t, False)
            after = self._seq(s.orelse, [bf]) if s.orelse else [bf]
            return after + breaks
        if isinstance(s, ast.Break):
            n = self._new("stmt", s)
            self._join(ins, n)
            self._loops[-1][1].append(n)
            return []
        if isinstance(s, ast.Continue):
            n = self._new("stmt", s)
            self._join(ins, n)
            self._loops[-1][2].append(n)
            return []
        if isinstance(s, ast.Return):
            n = self._new("return", s)
            self._join(ins, n)
            self._edge(n, self.exit)
            return []
        if isinstance(s, ast.Raise):
            n = self._new("raise", s)
            self._join(ins, n)
            self._edge(n, self.exit)
            return []
        if isinstance(s, ast.Assert):
            t = self._new("test", s.test, note="assert")
            self._join(ins, t)
            bt = self._branch(t, True)
            bf = self._branch(t, False)
            r = self._new("raise", s, note="assert-fail")
            self._edge(bf, r)
            self._edge(r, self.exit)
            return [bt]
        if isinstance(s, (ast.With, ast.AsyncWith)):
            n = self._new("stmt", s, note="with")
            self._join(ins, n)
            return self._seq(s.body, [n])
        if isinstance(s, ast.Try) or type(s).__name__ == "TryStar":
            start = self._new("stmt", s, note="try")
            self._join(ins, start)
            first = len(self.nodes)
            outs = self._seq(s.body, [start])
            body_nodes = [self.nodes[i] for i in range(first, len(self.nodes))]
            h_outs: list[Node] = []
            for h in s.handlers:
                hn = self._new("stmt", h, note="except")
                self._edge(start, hn)
                for b in body_nodes:
                    if b.kind in ("stmt", "test", "for"):
                        self._edge(b, hn)
                h_outs += self._seq(h.body, [hn])
            if s.orelse:
                outs = self._seq(s.orelse, outs)
            outs = outs + h_outs
            if s.finalbody:
                outs = self._seq(s.finalbody, outs)
            return outs
        if isinstance(s, ast.Match):
            subj = self._new("stmt", s.subject, note="match-subject")
            self._join(ins, subj)
            cur = [subj]
            outs: list[Node] = []
            for c in s.cases:
                t = self._new("test", c.pattern, note="case")
                t.case = c  # type: ignore[attr-defined]
                self._join(cur, t)
                bt = self._branch(t, True)
                outs += self._seq(c.body, [bt])
                irrefutable = isinstance(c.pattern, ast.MatchAs) and c.pattern.pattern is None and c.guard is None
                if irrefutable:
                    cur = []
                    break
                cur = [self._branch(t, False)]
            return outs + cur
        if isinstance(s, (ast.FunctionDef, ast.AsyncFunctionDef, ast.ClassDef)):
            n = self._new("def", s)
            self._join(ins, n)
            return [n]
        n = self._new("stmt", s)
        self._join(ins, n)
        return [n]

    # -- graph algorithms -----------------------------------------------------------------
    def _rpo(self, start: int, succ) -> list[int]:
        seen, order = set(), []
        stack = [(start, iter(succ[start]))]
        seen.add(start)
        while stack:
            v, it = stack[-1]
            for w in it:
                if w not in seen:
                    seen.add(w)
                    stack.append((w, iter(succ[w])))
                    break
            else:
                order.append(v)
                stack.pop()
        order.reverse()
        return order

    def _dominators(self, start: int, succ, pred) -> dict[int, set[int]]:
        order = self._rpo(start, succ)
        reach = set(order)
        dom = {v: set(reach) for v in order}
        dom[start] = {start}
        changed = True
        while changed:
            changed = False
            for v in order:
                if v == start:
                    continue
                ps = [dom[p] for p in pred[v] if p in reach]
                new = set.intersection(*ps) if ps else set()
                new = new | {v}
                if new != dom[v]:
                    dom[v] = new
                    changed = True
        return dom

    @property
    def dom(self) -> dict[int, set[int]]:
        if self._dom is None:
            self._dom = self._dominators(self.entry.id, self.succ, self.pred)
        return self._dom

    @property
    def pdom(self) -> dict[int, set[int]]:
        if self._pdom is None:
            self._pdom = self._dominators(self.exit.id, self.pred, self.succ)
        return self._pdom

    def reachable(self, n: Node) -> bool:
        return n.id in self.dom

    def dominates(self, a: Node, b: Node) -> bool:
        return b.id in self.dom and a.id in self.dom[b.id]

    def postdominates(self, a: Node, b: Node) -> bool:
        return b.id in self.pdom and a.id in self.pdom[b.id]

    def guards(self, n: Node) -> list[Node]:
        """Branch nodes dominating n, i.e. every path entry->n takes that branch."""
        if n.id not in self.dom:
            return []
        return [self.nodes[i] for i in sorted(self.dom[n.id]) if self.nodes[i].kind == "branch"]

    def forward(self, start: Node, avoid: set[int] = frozenset()) -> set[int]:
        seen = set()
        work = [start.id]
        while work:
            v = work.pop()
            for w in self.succ[v]:
                if w not in seen and w not in avoid:
                    seen.add(w)
                    work.append(w)
        return seen

    def backward(self, start: Node, avoid: set[int] = frozenset()) -> set[int]:
        seen = set()
        work = [start.id]
        while work:
            v = work.pop()
            for w in self.pred[v]:
                if w not in seen and w not in avoid:
                    seen.add(w)
                    work.append(w)
        return seen

    def between(self, a: Node, b: Node) -> set[int]:
        """Nodes lying on some path a -> ... -> b (exclusive of a, possibly including b via cycles)."""
        return self.forward(a) & (self.backward(b) | {b.id})

    def node_of(self, a: ast.AST) -> Node | None:
        return self.by_ast.get(id(a))

    def stmt_node_containing(self, expr: ast.AST) -> Node | None:
        """The CFG node whose statement/test contains the given sub-expression."""
        cache = getattr(self, "_contain", None)
        if cache is None:
            cache = {}
            for n in self.nodes:
                if n.ast is None or n.kind in ("branch", "def"):
                    continue
                root = n.ast
                if n.kind == "for":
                    subs = [root.target, root.iter]
                elif isinstance(root, (ast.With, ast.AsyncWith)):
                    subs = [i for it in root.items for i in (it.context_expr, it.optional_vars) if i is not None]
                elif isinstance(root, (ast.Try, ast.ExceptHandler)):
                    subs = []
                else:
                    subs = [root]
                for r in subs:
                    for x in ast.walk(r):
                        cache.setdefault(id(x), n)
            self._contain = cache
        return cache.get(id(expr))

    def loop_body(self, head: Node) -> set[int]:
        """Nodes of the natural loop of `head` (nodes that can reach a back edge into head without leaving)."""
        body = {head.id}
        work = [a for (a, b) in self.back_edges if b == head.id]
        while work:
            v = work.pop()
            if v in body:
                continue
            body.add(v)
            work.extend(self.pred[v])
        return body

    def paths(self, a: Node, b: Node, limit: int = 20000, avoid: set[int] = frozenset()):
        """Enumerate acyclic paths a..b (lists of node ids). Stops at `limit`."""
        out = []
        can = self.backward(b) | {b.id}
        stack = [(a.id, [a.id])]
        while stack and len(out) < limit:
            v, p = stack.pop()
            if v == b.id and len(p) > 1:
                out.append(p)
                continue
            for w in self.succ[v]:
                if w in can and w not in avoid and (w not in p or (w == b.id)):
                    stack.append((w, p + [w]))
        return out


_CFG_CACHE: dict[int, CFG] = {}


def cfg_of(fn_node: ast.AST) -> CFG:
    k = id(fn_node)
    c = _CFG_CACHE.get(k)
    if c is None or c.fn is not fn_node:
        c = CFG(fn_node)
        _CFG_CACHE[k] = c
    return c
