"""R4 SIGN-UNIT: two-point unit inference for objective-like values.

U = user's sense (what Result.objective carries), I = internal sense (sign * U, order-reversed
for maximize).  N = neutral (constants, eps, counters) - polymorphic, never reported.
'?' = unknown/conflicting - never reported except where a rule asks for agreement explicitly.
"""

from __future__ import annotations

import ast

from .index import Func, own_nodes

U, I, N, Q = "U", "I", "N", "?"


def toggle(u: str) -> str:
    return {U: I, I: U}.get(u, u)


def join(a: str, b: str) -> str:
    if a == b:
        return a
    if a == N:
        return b
    if b == N:
        return a
    return Q


class UnitEnv:
    def __init__(self, f: Func, cost_params: set[str], u_attrs: set[str] = frozenset({"objective"}), sign_param: str = "minimize", seeds: dict[str, str] | None = None, u_calls: set[str] = frozenset(), i_calls: set[str] = frozenset()):
        self.f = f
        self.cost = cost_params
        self.u_attrs = u_attrs
        self.sign_param = sign_param
        self.u_calls, self.i_calls = set(u_calls), set(i_calls)
        self.sign_vars: set[str] = set()
        self.vars: dict[str, str] = dict(seeds or {})
        self.fixed = set(self.vars)
        self.heap_keys: dict[str, list[tuple[str, ast.AST]]] = {}
        self._find_sign_vars()
        self._fixpoint()

    def _find_sign_vars(self):
        for n in own_nodes(self.f.node):
            if isinstance(n, ast.Assign) and len(n.targets) == 1 and isinstance(n.targets[0], ast.Name) and isinstance(n.value, ast.IfExp):
                v = n.value
                t = v.test
                pol = None
                if isinstance(t, ast.Name) and t.id == self.sign_param:
                    pol = True
                elif isinstance(t, ast.UnaryOp) and isinstance(t.op, ast.Not) and isinstance(t.operand, ast.Name) and t.operand.id == self.sign_param:
                    pol = False
                if pol is None:
                    continue

                def const(e):
                    if isinstance(e, ast.Constant):
                        return e.value
                    if isinstance(e, ast.UnaryOp) and isinstance(e.op, ast.USub) and isinstance(e.operand, ast.Constant):
                        return -e.operand.value
                    return None

                a, b = const(v.body), const(v.orelse)
                if a is not None and b is not None and a == -b and abs(a) == 1:
                    # orientation: +1 when minimizing is the only orientation under which sign*U is the internal (minimised) value
                    if (pol and a == 1) or (not pol and a == -1):
                        self.sign_vars.add(n.targets[0].id)
                    else:
                        self.sign_vars.add("!" + n.targets[0].id)  # inverted orientation, reported by the rule

    def unit(self, e: ast.AST) -> str:
        if isinstance(e, ast.Constant):
            return N
        if isinstance(e, ast.Name):
            if e.id in self.sign_vars:
                return N
            return self.vars.get(e.id, N)
        if isinstance(e, ast.Attribute):
            if e.attr in self.u_attrs:
                return U
            return N
        if isinstance(e, ast.UnaryOp):
            return self.unit(e.operand)
        if isinstance(e, ast.BinOp):
            if isinstance(e.op, (ast.Mult, ast.Div)):
                ls, rs = self._is_sign(e.left), self._is_sign(e.right)
                if ls and not rs:
                    return toggle(self.unit(e.right))
                if rs and not ls:
                    return toggle(self.unit(e.left))
                # cost * value -> U
                if self._reads_cost(e):
                    return U
                l, r = self.unit(e.left), self.unit(e.right)
                return join(l, r) if N in (l, r) else Q
            if isinstance(e.op, (ast.Add, ast.Sub)):
                return join(self.unit(e.left), self.unit(e.right))
            return N
        if isinstance(e, ast.IfExp):
            return join(self.unit(e.body), self.unit(e.orelse))
        if isinstance(e, ast.Call):
            fn = e.func.id if isinstance(e.func, ast.Name) else (e.func.attr if isinstance(e.func, ast.Attribute) else "")
            if fn in self.u_calls:
                return U
            if fn in self.i_calls:
                return I
            if fn in ("sum", "min", "max", "abs", "float"):
                if self._reads_cost(e):
                    return U
                u = N
                for a in e.args:
                    u = join(u, self.unit(a))
                return u
            return N
        if isinstance(e, (ast.GeneratorExp, ast.ListComp)):
            return U if self._reads_cost(e) else self.unit(e.elt)
        if isinstance(e, ast.Subscript):
            if isinstance(e.value, ast.Name) and e.value.id in self.cost:
                return U
            return self.unit(e.value) if isinstance(e.value, ast.Name) and e.value.id in self.vars else N
        return N

    def _is_sign(self, e: ast.AST) -> bool:
        if isinstance(e, ast.UnaryOp) and isinstance(e.op, ast.USub):
            return self._is_sign(e.operand)
        return isinstance(e, ast.Name) and e.id in self.sign_vars

    def _reads_cost(self, e: ast.AST) -> bool:
        for n in ast.walk(e):
            if isinstance(n, ast.Subscript) and isinstance(n.value, ast.Name) and n.value.id in self.cost:
                return True
        return False

    def _fixpoint(self):
        fn = self.f.node
        for _ in range(6):
            changed = False
            self.heap_keys = {}
            for n in own_nodes(fn):
                if isinstance(n, ast.Call) and isinstance(n.func, ast.Name) and n.func.id == "heappush" and len(n.args) == 2 and isinstance(n.args[0], ast.Name) and isinstance(n.args[1], ast.Tuple):
                    self.heap_keys.setdefault(n.args[0].id, []).append((self.unit(n.args[1].elts[0]), n))
            for n in own_nodes(fn):
                pairs = []
                if isinstance(n, ast.Assign):
                    for t in n.targets:
                        if isinstance(t, ast.Name):
                            pairs.append((t.id, self.unit(n.value)))
                        elif isinstance(t, ast.Tuple):
                            if isinstance(n.value, ast.Tuple) and len(n.value.elts) == len(t.elts):
                                for a, b in zip(t.elts, n.value.elts):
                                    if isinstance(a, ast.Name):
                                        pairs.append((a.id, self.unit(b)))
                            elif isinstance(n.value, ast.Call) and isinstance(n.value.func, ast.Name) and n.value.func.id == "heappop" and isinstance(n.value.args[0], ast.Name):
                                ks = self.heap_keys.get(n.value.args[0].id, [])
                                u = N
                                for x, _ in ks:
                                    u = join(u, x)
                                if isinstance(t.elts[0], ast.Name):
                                    pairs.append((t.elts[0].id, u))
                elif isinstance(n, ast.AugAssign) and isinstance(n.target, ast.Name):
                    pairs.append((n.target.id, join(self.vars.get(n.target.id, N), self.unit(n.value))))
                for name, u in pairs:
                    if name in self.fixed or name in self.sign_vars:
                        continue
                    old = self.vars.get(name, N)
                    new = join(old, u)
                    if new != old:
                        self.vars[name] = new
                        changed = True
            if not changed:
                break

    def comparisons(self):
        """Yield (Compare node, unit_left, unit_right) for ordering comparisons with a unit on both sides."""
        for n in own_nodes(self.f.node):
            if isinstance(n, ast.Compare) and len(n.ops) == 1 and isinstance(n.ops[0], (ast.Lt, ast.LtE, ast.Gt, ast.GtE)):
                l, r = self.unit(n.left), self.unit(n.comparators[0])
                yield n, l, r
