"""Rename-tolerance: map a function whose body is alpha-equivalent to the recorded baseline back to the baseline's
local names before analysis.

The per-property checks locate many constructs through local variable names (`best_obj`, `tree`, `converged` ...).
A refactor that only renames locals leaves behaviour unchanged, so it must not produce a report.  For every
top-level function (with its nested closures) `anchors/locals.json` records an *alpha skeleton* digest (the AST with
every unit-local name replaced by the index of its first occurrence) and the ordered list of those names.  When the
function in the working tree has the same skeleton, it differs from the baseline by a consistent renaming of locals
only; the in-memory AST is renamed back to the baseline names (line numbers are kept) and analysed as usual.  Any
other edit leaves the function exactly as written.  Nothing here decides a property: the file holds digests and
names, no source.
"""

from __future__ import annotations

import ast
import hashlib
import json
import os

HERE = os.path.dirname(os.path.dirname(os.path.abspath(__file__)))
ANCHORS = os.path.join(HERE, "anchors", "locals.json")


def _unit_locals(fn: ast.AST) -> set[str]:
    """names bound somewhere inside the unit (function + nested closures), except the unit's own parameters"""
    own_params = {a.arg for a in (fn.args.posonlyargs + fn.args.args + fn.args.kwonlyargs)}
    if fn.args.vararg:
        own_params.add(fn.args.vararg.arg)
    if fn.args.kwarg:
        own_params.add(fn.args.kwarg.arg)
    bound: set[str] = set()
    declared_global: set[str] = set()
    for n in ast.walk(fn):
        if isinstance(n, ast.Name) and isinstance(n.ctx, (ast.Store, ast.Del)):
            bound.add(n.id)
        elif isinstance(n, (ast.FunctionDef, ast.AsyncFunctionDef, ast.ClassDef)) and n is not fn:
            bound.add(n.name)
            if isinstance(n, (ast.FunctionDef, ast.AsyncFunctionDef)):
                for a in n.args.posonlyargs + n.args.args + n.args.kwonlyargs:
                    bound.add(a.arg)
                if n.args.vararg:
                    bound.add(n.args.vararg.arg)
                if n.args.kwarg:
                    bound.add(n.args.kwarg.arg)
        elif isinstance(n, ast.Lambda):
            for a in n.args.posonlyargs + n.args.args + n.args.kwonlyargs:
                bound.add(a.arg)
        elif isinstance(n, ast.ExceptHandler) and n.name:
            bound.add(n.name)
        elif isinstance(n, ast.Global):
            declared_global |= set(n.names)
        elif isinstance(n, ast.alias):
            bound.add((n.asname or n.name).split(".")[0])
    return bound - own_params - declared_global


def _occurrences(fn: ast.AST, locals_: set[str]):
    """yield (node, attribute) for every occurrence of a unit-local name, in deterministic order"""
    stack = [fn]
    while stack:
        n = stack.pop()
        if isinstance(n, ast.Name) and n.id in locals_:
            yield n, "id"
        elif isinstance(n, ast.arg) and n.arg in locals_:
            yield n, "arg"
        elif isinstance(n, (ast.FunctionDef, ast.AsyncFunctionDef, ast.ClassDef)) and n is not fn and n.name in locals_:
            yield n, "name"
        elif isinstance(n, ast.ExceptHandler) and n.name in locals_:
            yield n, "name"
        elif isinstance(n, ast.Nonlocal):
            yield n, "names"
        stack.extend(reversed(list(ast.iter_child_nodes(n))))


def skeleton(fn: ast.AST):
    """(digest, ordered local names).  Computed on a copy: the tree is not modified."""
    locals_ = _unit_locals(fn)
    order: list[str] = []
    index: dict[str, int] = {}
    saved = []
    for n, attr in _occurrences(fn, locals_):
        if attr == "names":
            for x in n.names:
                if x in locals_ and x not in index:
                    index[x] = len(order)
                    order.append(x)
            saved.append((n, attr, list(n.names)))
            n.names = [f"\x00{index[x]}" if x in index else x for x in n.names]
            continue
        v = getattr(n, attr)
        if v not in index:
            index[v] = len(order)
            order.append(v)
        saved.append((n, attr, v))
        setattr(n, attr, f"\x00{index[v]}")
    try:
        dump = ast.dump(fn, annotate_fields=False, include_attributes=False)
    finally:
        for n, attr, v in saved:
            setattr(n, attr, v)
    return hashlib.sha1(dump.encode()).hexdigest(), order


def units(tree: ast.Module):
    """(qualified name, node) of every top-level function and every method of a top-level class"""
    for n in tree.body:
        if isinstance(n, (ast.FunctionDef, ast.AsyncFunctionDef)):
            yield n.name, n
        elif isinstance(n, ast.ClassDef):
            for m in n.body:
                if isinstance(m, (ast.FunctionDef, ast.AsyncFunctionDef)):
                    yield f"{n.name}.{m.name}", m


_BASELINE = None


def baseline() -> dict:
    global _BASELINE
    if _BASELINE is None:
        if os.path.exists(ANCHORS):
            with open(ANCHORS, encoding="utf-8") as fh:
                _BASELINE = json.load(fh)
        else:
            _BASELINE = {}
    return _BASELINE


def derename(rel: str, tree: ast.Module) -> list[str]:
    """Rename alpha-equivalent units back to their baseline names, in place.  Returns the list of units renamed."""
    base = baseline()
    done = []
    for q, fn in units(tree):
        b = base.get(f"{rel}::{q}")
        if not b:
            continue
        dig, order = skeleton(fn)
        if dig != b["skeleton"] or order == b["names"] or len(order) != len(b["names"]):
            continue
        mapping = dict(zip(order, b["names"]))
        locals_ = set(order)
        for n, attr in list(_occurrences(fn, locals_)):
            if attr == "names":
                n.names = [mapping.get(x, x) for x in n.names]
            else:
                setattr(n, attr, mapping.get(getattr(n, attr), getattr(n, attr)))
        done.append(q)
    return done


def build_baseline(root: str, package: str = "solvor") -> dict:
    out = {}
    pkg = os.path.join(root, package)
    for d, dirs, files in os.walk(pkg):
        dirs[:] = sorted(x for x in dirs if x != "__pycache__")
        for f in sorted(files):
            if not f.endswith(".py"):
                continue
            p = os.path.join(d, f)
            rel = os.path.relpath(p, root)
            with open(p, encoding="utf-8") as fh:
                tree = ast.parse(fh.read())
            for q, fn in units(tree):
                dig, order = skeleton(fn)
                out[f"{rel}::{q}"] = {"skeleton": dig, "names": order}
    return out
