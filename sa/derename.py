"""Surface tolerance: analyse a function that differs from the recorded baseline only by behaviour-preserving
surface edits in the baseline's own surface form.

The per-property checks locate many constructs through local variable names and statement shapes (`best_obj`,
`total_weight += w`, `if residual > 0`).  A refactor that only renames locals, flips a comparison, expands an
augmented assignment of a scalar, inverts an if/else, moves a numeric constant to the other side of `+`/`*` or routes
a returned call through a temporary leaves behaviour unchanged, so it must not produce a report.

For every top-level function / method (with its nested closures) `anchors/locals.json` records
  * the digest of its *normal form*: the AST after the normalising rewrites N1-N5 below, with every unit-local name
    replaced by the index of its first occurrence (alpha skeleton),
  * the ordered list of local names of the baseline, and
  * for every normalisable node of the normal form (in pre-order) which surface variant the baseline uses.
When the function in the working tree has the same normal-form digest it is the baseline function up to those
edits; its in-memory AST is rewritten into the baseline's surface variant and names (line numbers are kept) and
analysed as usual.  Any other edit leaves the function exactly as written.  The file holds digests, names and
variant flags - no source; nothing here decides a property.

Normalising rewrites (each semantics-preserving under the stated side condition):
  N1  x = x <op> e          ->  x <op>= e        x a plain local used as a scalar only (never subscripted, iterated,
                                                 passed to len, tested with `in`, or used through an attribute): for such
                                                 a name in-place and rebinding updates cannot be told apart
  N2  a > b  /  a >= b      ->  b < a / b <= a   single comparison, no call / walrus inside (evaluation order irrelevant)
      K == x / K != x       ->  x == K / x != K  K a constant
  N3  if not c: A else: B   ->  if c: B else: A
  N4  K + e  /  K * e       ->  e + K / e * K    K a numeric constant (IEEE + and * commute exactly)
  N5  t = <call>; return t  ->  return <call>    t occurs nowhere else in the unit
  N0  docstrings and annotations are left out of the normal form (the analysed function keeps its own)
"""

from __future__ import annotations

import ast
import copy
import hashlib
import json
import os

HERE = os.path.dirname(os.path.dirname(os.path.abspath(__file__)))
ANCHORS = os.path.join(HERE, "anchors", "locals.json")

_FLIP = {ast.Gt: ast.Lt, ast.GtE: ast.LtE}
_UNFLIP = {ast.Lt: ast.Gt, ast.LtE: ast.GtE, ast.Eq: ast.Eq, ast.NotEq: ast.NotEq}


# ---------------------------------------------------------------------------------------------------------------
# alpha skeleton (unchanged from the rename-only version)
# ---------------------------------------------------------------------------------------------------------------
def _unit_locals(fn: ast.AST) -> set[str]:
    """names bound somewhere inside the unit (function + nested closures), except the unit's own parameters"""
    own_params = {a.arg for a in (fn.args.posonlyargs + fn.args.args + fn.args.kwonlyargs)}
    if fn.args.vararg:
        own_params.add(fn.args.vararg.arg)
    if fn.args.kwarg:
        own_params.add(fn.args.kwarg.arg)
    bound: set[str] = set()
    declared_global: set[str] = set()
    for n in ast.walk(fn):
        if isinstance(n, ast.Name) and isinstance(n.ctx, (ast.Store, ast.Del)):
            bound.add(n.id)
        elif isinstance(n, (ast.FunctionDef, ast.AsyncFunctionDef, ast.ClassDef)) and n is not fn:
            bound.add(n.name)
            if isinstance(n, (ast.FunctionDef, ast.AsyncFunctionDef)):
                for a in n.args.posonlyargs + n.args.args + n.args.kwonlyargs:
                    bound.add(a.arg)
                if n.args.vararg:
                    bound.add(n.args.vararg.arg)
                if n.args.kwarg:
                    bound.add(n.args.kwarg.arg)
        elif isinstance(n, ast.Lambda):
            for a in n.args.posonlyargs + n.args.args + n.args.kwonlyargs:
                bound.add(a.arg)
        elif isinstance(n, ast.ExceptHandler) and n.name:
            bound.add(n.name)
        elif isinstance(n, ast.Global):
            declared_global |= set(n.names)
        elif isinstance(n, ast.alias):
            bound.add((n.asname or n.name).split(".")[0])
    return bound - own_params - declared_global


def _occurrences(fn: ast.AST, locals_: set[str]):
    """yield (node, attribute) for every occurrence of a unit-local name, in deterministic order"""
    stack = [fn]
    while stack:
        n = stack.pop()
        if isinstance(n, ast.Name) and n.id in locals_:
            yield n, "id"
        elif isinstance(n, ast.arg) and n.arg in locals_:
            yield n, "arg"
        elif isinstance(n, (ast.FunctionDef, ast.AsyncFunctionDef, ast.ClassDef)) and n is not fn and n.name in locals_:
            yield n, "name"
        elif isinstance(n, ast.ExceptHandler) and n.name in locals_:
            yield n, "name"
        elif isinstance(n, ast.Nonlocal):
            yield n, "names"
        stack.extend(reversed(list(ast.iter_child_nodes(n))))


_COMPS = (ast.ListComp, ast.SetComp, ast.DictComp, ast.GeneratorExp)


def _canon_comprehension_vars(fn: ast.AST) -> list[str]:
    """Comprehension variables are local to their comprehension: each gets a positional name `_c<k>` (pre-order), in
    place, so that a digest does not depend on whether two comprehensions happen to reuse one name.  Returns the
    original names by position.  A variable that is also a parameter or is used as the comprehension's first
    iterable keeps its name (renaming it would capture the outer variable)."""
    params = {a.arg for x in ast.walk(fn) if isinstance(x, ast.arguments) for a in x.posonlyargs + x.args + x.kwonlyargs}
    names: list[str] = []
    stack = [fn]
    while stack:
        node = stack.pop()
        if isinstance(node, _COMPS):
            for gen in node.generators:
                for t in [x for x in ast.walk(gen.target) if isinstance(x, ast.Name)]:
                    old = t.id
                    if old in params or old.startswith("_c") and old[2:].isdigit():
                        continue
                    if any(isinstance(x, ast.Name) and x.id == old for x in ast.walk(node.generators[0].iter)):
                        continue
                    new = f"_c{len(names)}"
                    names.append(old)
                    for x in ast.walk(node):
                        if isinstance(x, ast.Name) and x.id == old:
                            x.id = new
        stack.extend(reversed(list(ast.iter_child_nodes(node))))
    return names


def _alpha(fn: ast.AST):
    """(digest, ordered local names) of the tree as it is.  The tree is restored before returning."""
    locals_ = _unit_locals(fn)
    order: list[str] = []
    index: dict[str, int] = {}
    saved = []
    for n, attr in _occurrences(fn, locals_):
        if attr == "names":
            for x in n.names:
                if x in locals_ and x not in index:
                    index[x] = len(order)
                    order.append(x)
            saved.append((n, attr, list(n.names)))
            n.names = [f"\x00{index[x]}" if x in index else x for x in n.names]
            continue
        v = getattr(n, attr)
        if v not in index:
            index[v] = len(order)
            order.append(v)
        saved.append((n, attr, v))
        setattr(n, attr, f"\x00{index[v]}")
    try:
        dump = ast.dump(fn, annotate_fields=False, include_attributes=False)
    finally:
        for n, attr, v in saved:
            setattr(n, attr, v)
    return hashlib.sha1(dump.encode()).hexdigest(), order


# ---------------------------------------------------------------------------------------------------------------
# normal form
# ---------------------------------------------------------------------------------------------------------------
def _scalar_names(fn: ast.AST) -> set[str]:
    """locals never used in a way that suggests a container or object"""
    names = _unit_locals(fn) | {a.arg for a in ast.walk(fn) if isinstance(a, ast.arg)}
    bad: set[str] = set()
    for n in ast.walk(fn):
        if isinstance(n, (ast.Subscript, ast.Attribute, ast.Starred)) and isinstance(n.value, ast.Name):
            bad.add(n.value.id)
        elif isinstance(n, (ast.For, ast.comprehension)) and isinstance(n.iter, ast.Name):
            bad.add(n.iter.id)
        elif isinstance(n, ast.Call) and isinstance(n.func, ast.Name) and n.func.id in ("len", "list", "set", "tuple", "sorted", "sum", "min", "max", "iter", "enumerate", "zip", "any", "all", "dict"):
            if n.func.id in ("min", "max") and len(n.args) > 1:
                continue  # min(a, b) of scalars
            for a in n.args:
                if isinstance(a, ast.Name):
                    bad.add(a.id)
        elif isinstance(n, ast.Compare) and any(isinstance(o, (ast.In, ast.NotIn)) for o in n.ops):
            for c in n.comparators:
                if isinstance(c, ast.Name):
                    bad.add(c.id)
        elif isinstance(n, (ast.Assign, ast.AnnAssign)) and isinstance(getattr(n, "value", None), (ast.List, ast.ListComp, ast.Dict, ast.DictComp, ast.Set, ast.SetComp, ast.Tuple, ast.JoinedStr)):
            for t in n.targets if isinstance(n, ast.Assign) else [n.target]:
                if isinstance(t, ast.Name):
                    bad.add(t.id)
    return names - bad


def _no_eval_order(e: ast.AST) -> bool:
    return not any(isinstance(x, (ast.Call, ast.NamedExpr, ast.Await, ast.Yield, ast.YieldFrom)) for x in ast.walk(e))


def _num_const(e: ast.AST) -> bool:
    return isinstance(e, ast.Constant) and isinstance(e.value, (int, float)) and not isinstance(e.value, bool)


def _strip_ctx(e: ast.AST) -> ast.AST:
    e = copy.deepcopy(e)
    for x in ast.walk(e):
        if hasattr(x, "ctx"):
            x.ctx = ast.Load()
    return e


def _count_name(fn: ast.AST, name: str) -> int:
    return sum(1 for x in ast.walk(fn) if (isinstance(x, ast.Name) and x.id == name) or (isinstance(x, ast.Nonlocal) and name in x.names))


class _Normaliser(ast.NodeTransformer):
    """Rewrites to normal form; every node that has a surface variant gets `_v` (0 = already normal, 1 = the other
    variant; for N5 the name of the temporary)."""

    def __init__(self, fn: ast.AST):
        self.fn = fn
        self.scalars = _scalar_names(fn)
        # N5: names used for nothing but `t = <call>; return t` pairs
        pairs: dict[str, int] = {}
        for n in ast.walk(fn):
            for fld in ("body", "orelse", "finalbody"):
                b = getattr(n, fld, None)
                if isinstance(b, list):
                    for s, nxt in zip(b, b[1:]):
                        if self._is_temp_pair(s, nxt):
                            pairs[s.targets[0].id] = pairs.get(s.targets[0].id, 0) + 1
        self.temps = {t for t, k in pairs.items() if _count_name(fn, t) == 2 * k}

    @staticmethod
    def _is_temp_pair(s, nxt) -> bool:
        return isinstance(s, ast.Assign) and len(s.targets) == 1 and isinstance(s.targets[0], ast.Name) and isinstance(s.value, (ast.Call, ast.BinOp, ast.IfExp, ast.Compare, ast.BoolOp, ast.Subscript, ast.Tuple, ast.ListComp, ast.DictComp, ast.SetComp)) and isinstance(nxt, ast.Return) and isinstance(nxt.value, ast.Name) and nxt.value.id == s.targets[0].id

    # N5 works on statement lists
    def _merge_temp_returns(self, body: list) -> list:
        out = []
        i = 0
        while i < len(body):
            s = body[i]
            nxt = body[i + 1] if i + 1 < len(body) else None
            if nxt is not None and self._is_temp_pair(s, nxt) and s.targets[0].id in self.temps:
                r = ast.copy_location(ast.Return(value=s.value), s)
                r._v = s.targets[0].id
                out.append(r)
                i += 2
                continue
            if isinstance(s, ast.Return) and isinstance(s.value, (ast.Call, ast.BinOp, ast.IfExp, ast.Compare, ast.BoolOp, ast.Subscript, ast.Tuple, ast.ListComp, ast.DictComp, ast.SetComp)) and not hasattr(s, "_v"):
                s._v = 0
            out.append(s)
            i += 1
        return out

    # N6 works on statement lists too: `if c: ...jump  else: B`  ==  `if c: ...jump` followed by B
    @staticmethod
    def _ends_with_jump(body: list) -> bool:
        return bool(body) and isinstance(body[-1], (ast.Return, ast.Raise, ast.Continue, ast.Break))

    @staticmethod
    def _is_const_return(st, value) -> bool:
        return isinstance(st, ast.Return) and isinstance(st.value, ast.Constant) and st.value.value is value

    def _bool_returns(self, body: list) -> list:
        """N13: `if E: return True` followed by `return False`  ==  `return bool(E)` (and the negated pair)"""
        out = []
        i = 0
        while i < len(body):
            s = body[i]
            nxt = body[i + 1] if i + 1 < len(body) else None
            if isinstance(s, ast.If) and not s.orelse and len(s.body) == 1 and not hasattr(s, "_v") and ((self._is_const_return(s.body[0], True) and self._is_const_return(nxt, False))):
                s._v = ["boolret", 0]
                out.extend([s, nxt])
                i += 2
                continue
            if isinstance(s, ast.Return) and isinstance(s.value, ast.Call) and isinstance(s.value.func, ast.Name) and s.value.func.id == "bool" and len(s.value.args) == 1 and not s.value.keywords:
                m = ast.If(test=s.value.args[0], body=[ast.Return(value=ast.Constant(value=True))], orelse=[])
                r = ast.Return(value=ast.Constant(value=False))
                for x in (m, r):
                    ast.copy_location(x, s)
                    ast.fix_missing_locations(x)
                m._v = ["boolret", 1]
                out.extend([m, r])
                i += 1
                continue
            out.append(s)
            i += 1
        return out

    def _hoist_else(self, body: list) -> list:
        out = []
        for s in body:
            if isinstance(s, ast.If) and self._ends_with_jump(s.body) and not hasattr(s, "_v"):
                tail = s.orelse
                s.orelse = []
                s._v = ["else", len(tail), getattr(s, "_flip", 0)]
                out.append(s)
                out.extend(tail)
            else:
                out.append(s)
        return out

    def generic_visit(self, node):
        node = super().generic_visit(node)
        for fld in ("body", "orelse", "finalbody"):
            b = getattr(node, fld, None)
            if isinstance(b, list) and b and isinstance(b[0], ast.stmt):
                setattr(node, fld, self._hoist_else(self._bool_returns(self._merge_temp_returns(b))))
        return node

    def visit_AnnAssign(self, n):
        n = self.generic_visit(n)
        if n.value is not None and isinstance(n.target, ast.Name) and n.simple:
            a = ast.copy_location(ast.Assign(targets=[n.target], value=n.value), n)
            a._v = ["ann", ast.unparse(n.annotation)]
            return self._after_assign(a)
        n.annotation = ast.Constant(value=None)  # attribute / subscript target, or no value: the annotation is dropped
        return n

    def _after_assign(self, n):
        """N1 on a plain assignment; an annotated one keeps its annotation variant"""
        if isinstance(n.value, ast.BinOp) and isinstance(n.value.left, ast.Name) and n.value.left.id == n.targets[0].id and n.targets[0].id in self.scalars and self._scalar_operand(n.value.right) and not isinstance(getattr(n, "_v", 0), list):
            a = ast.copy_location(ast.AugAssign(target=n.targets[0], op=n.value.op, value=n.value.right), n)
            a._v = 1
            return a
        return n

    def _min_max_if(self, n):
        """N7: `t = min(t, e)` / `t = max(t, e)`  ->  `if e < t: t = e` / `if t < e: t = e` (t free of calls)"""
        v = n.value
        if len(n.targets) == 1 and isinstance(v, ast.Call) and isinstance(v.func, ast.Name) and v.func.id in ("min", "max") and len(v.args) == 2 and not v.keywords:
            tt = ast.dump(_strip_ctx(n.targets[0]))
            a, b = v.args
            other = b if ast.dump(_strip_ctx(a)) == tt else a if ast.dump(_strip_ctx(b)) == tt and v.func.id == "max" and False else None
            if other is not None and _no_eval_order(n.targets[0]) and _no_eval_order(other):
                cur = copy.deepcopy(a)
                test = ast.Compare(left=other, ops=[ast.Lt()], comparators=[cur]) if v.func.id == "min" else ast.Compare(left=cur, ops=[ast.Lt()], comparators=[other])
                test._v = 0  # a `<` comparison is a variant node (N2) in the if-form as well
                m = ast.If(test=test, body=[ast.Assign(targets=n.targets, value=copy.deepcopy(other))], orelse=[])
                ast.copy_location(m, n)
                ast.fix_missing_locations(m)
                m._v = ["minmax", 1]
                return m
        return None

    def visit_Assign(self, n):
        n = self.generic_visit(n)
        mm = self._min_max_if(n)
        if mm is not None:
            return mm
        if len(n.targets) == 1 and isinstance(n.targets[0], ast.Name) and not (isinstance(n.value, ast.BinOp) and isinstance(n.value.left, ast.Name) and n.value.left.id == n.targets[0].id):
            n._v = 0  # could carry an annotation
            return n
        if len(n.targets) == 1 and isinstance(n.targets[0], ast.Name) and isinstance(n.value, ast.BinOp) and isinstance(n.value.left, ast.Name) and n.value.left.id == n.targets[0].id and n.targets[0].id in self.scalars and self._scalar_operand(n.value.right):
            a = ast.copy_location(ast.AugAssign(target=n.targets[0], op=n.value.op, value=n.value.right), n)
            a._v = 1
            return a
        return n

    @staticmethod
    def _scalar_operand(e: ast.AST) -> bool:
        """the other operand does not look like a sequence either (x += [..] extends in place, x = x + [..] rebinds)"""
        if isinstance(e, (ast.List, ast.Tuple, ast.ListComp, ast.Set, ast.SetComp, ast.Dict, ast.DictComp, ast.JoinedStr, ast.GeneratorExp)):
            return False
        if isinstance(e, ast.Constant) and isinstance(e.value, (str, bytes)):
            return False
        if isinstance(e, ast.Call) and isinstance(e.func, ast.Name) and e.func.id in ("list", "tuple", "sorted", "set", "dict", "str"):
            return False
        return True

    def visit_AugAssign(self, n):
        n = self.generic_visit(n)
        if isinstance(n.target, ast.Name) and n.target.id in self.scalars and self._scalar_operand(n.value):
            n._v = 0
        return n

    def visit_Compare(self, n):
        n = self.generic_visit(n)
        if len(n.ops) != 1 or not _no_eval_order(n):
            return n
        op = type(n.ops[0])
        l, r = n.left, n.comparators[0]
        if op in _FLIP:
            m = ast.copy_location(ast.Compare(left=r, ops=[_FLIP[op]()], comparators=[l]), n)
            m._v = 1
            return m
        if op in (ast.Lt, ast.LtE):
            n._v = 0
        elif op in (ast.Eq, ast.NotEq):
            if isinstance(l, ast.Constant) and not isinstance(r, ast.Constant):
                m = ast.copy_location(ast.Compare(left=r, ops=[op()], comparators=[l]), n)
                m._v = 1
                return m
            if isinstance(r, ast.Constant) and not isinstance(l, ast.Constant):
                n._v = 0
        return n

    @staticmethod
    def _is_min_max_if(n) -> bool:
        if n.orelse or len(n.body) != 1 or not isinstance(n.body[0], ast.Assign) or len(n.body[0].targets) != 1:
            return False
        t = n.test
        if not (isinstance(t, ast.Compare) and len(t.ops) == 1 and isinstance(t.ops[0], ast.Lt)):
            return False
        tgt = ast.dump(_strip_ctx(n.body[0].targets[0]))
        val = ast.dump(_strip_ctx(n.body[0].value))
        l, r = ast.dump(_strip_ctx(t.left)), ast.dump(_strip_ctx(t.comparators[0]))
        return _no_eval_order(n.body[0].targets[0]) and _no_eval_order(n.body[0].value) and ((l == val and r == tgt) or (l == tgt and r == val))

    def visit_If(self, n):
        n = self.generic_visit(n)
        if self._is_min_max_if(n):
            n._v = ["minmax", 0]
            return n
        if n.orelse and isinstance(n.test, ast.UnaryOp) and isinstance(n.test.op, ast.Not):
            m = ast.copy_location(ast.If(test=n.test.operand, body=n.orelse, orelse=n.body), n)
            if self._ends_with_jump(m.body):
                m._flip = 1  # N6 is applied by the enclosing statement list; it records the inversion as well
                return m
            m._v = 1
            return m
        if self._ends_with_jump(n.body):
            return n  # N6 (else after a jump) is applied by the enclosing statement list
        if n.orelse:
            n._v = 0
        return n

    # N8: {k: c for k in X}  ==  dict.fromkeys(X, c)   (c a number / None / arithmetic over plain names: nothing mutable)
    @staticmethod
    def _immutable_value(e: ast.AST, bound: str | None) -> bool:
        for x in ast.walk(e):
            if isinstance(x, ast.Name):
                if x.id == bound:
                    return False
            elif isinstance(x, ast.Constant):
                if isinstance(x.value, (str, bytes)) and False:
                    return False
            elif not isinstance(x, (ast.BinOp, ast.UnaryOp, ast.operator, ast.unaryop, ast.expr_context)):
                return False
        return True

    def visit_DictComp(self, n):
        n = self.generic_visit(n)
        if len(n.generators) == 1 and not n.generators[0].ifs and not n.generators[0].is_async and isinstance(n.generators[0].target, ast.Name) and isinstance(n.key, ast.Name) and n.key.id == n.generators[0].target.id and self._immutable_value(n.value, n.key.id):
            n._v = ["fromkeys", 0]
        return n

    def visit_SetComp(self, n):
        n = self.generic_visit(n)
        m = ast.copy_location(ast.Call(func=ast.Name(id="set", ctx=ast.Load()), args=[ast.GeneratorExp(elt=n.elt, generators=n.generators)], keywords=[]), n)
        ast.fix_missing_locations(m)
        m._v = ["comp", 1]
        return m

    def visit_List(self, n):
        n = self.generic_visit(n)
        if isinstance(n.ctx, ast.Load) and any(isinstance(e, ast.Starred) for e in n.elts):
            # N10: [a, *X, b]  ->  [a] + X + [b]   (X written bare: it was a list operand of `+` before the rewrite)
            segs, cur = [], []
            for e in n.elts:
                if isinstance(e, ast.Starred):
                    if cur:
                        segs.append(ast.List(elts=cur, ctx=ast.Load()))
                        cur = []
                    segs.append(e.value)
                else:
                    cur.append(e)
            if cur:
                segs.append(ast.List(elts=cur, ctx=ast.Load()))
            if len(segs) >= 2:
                m = segs[0]
                for sg in segs[1:]:
                    m = ast.BinOp(left=m, op=ast.Add(), right=sg)
                ast.copy_location(m, n)
                ast.fix_missing_locations(m)
                m._v = ["concat", 1]
                return m
        return n

    def visit_Call(self, n):
        n = self.generic_visit(n)
        fn_ = ast.unparse(n.func)
        if fn_ in ("set", "list") and len(n.args) == 1 and not n.keywords and isinstance(n.args[0], ast.GeneratorExp) and fn_ == "set":
            n._v = ["comp", 0]
            return n
        if fn_ == "zip":
            strict = [k for k in n.keywords if k.arg == "strict"]
            if strict and isinstance(strict[0].value, ast.Constant) and strict[0].value.value is False:
                n.keywords = [k for k in n.keywords if k.arg != "strict"]
                n._v = ["zip", 1, 0]
            elif not n.keywords:
                n._v = ["zip", 0, 0]
            return n
        if fn_ in ("itertools.pairwise", "pairwise") and len(n.args) == 1 and not n.keywords and _no_eval_order(n.args[0]):
            x = n.args[0]
            m = ast.Call(func=ast.Name(id="zip", ctx=ast.Load()), args=[x, ast.Subscript(value=copy.deepcopy(x), slice=ast.Slice(lower=ast.Constant(value=1)), ctx=ast.Load())], keywords=[])
            ast.copy_location(m, n)
            ast.fix_missing_locations(m)
            m._v = ["zip", 0, 1 if fn_ == "pairwise" else 2]
            return m
        if fn_ == "int" and len(n.args) == 1 and not n.keywords and isinstance(n.args[0], ast.Call) and ast.unparse(n.args[0].func) == "round" and len(n.args[0].args) == 1 and not n.args[0].keywords:
            m = n.args[0]
            m._v = ["intround", 1]
            return m
        if fn_ == "round" and len(n.args) == 1 and not n.keywords:
            n._v = ["intround", 0]
            return n
        if isinstance(n.func, ast.Attribute) and n.func.attr == "fromkeys" and isinstance(n.func.value, ast.Name) and n.func.value.id == "dict" and len(n.args) == 2 and not n.keywords and self._immutable_value(n.args[1], None):
            k = "_k"
            m = ast.DictComp(key=ast.Name(id=k, ctx=ast.Load()), value=n.args[1], generators=[ast.comprehension(target=ast.Name(id=k, ctx=ast.Store()), iter=n.args[0], ifs=[], is_async=0)])
            ast.copy_location(m, n)
            ast.fix_missing_locations(m)
            m._v = ["fromkeys", 1]
            return m
        return n

    def visit_BinOp(self, n):
        n = self.generic_visit(n)
        if isinstance(n.op, ast.Add) and (isinstance(n.left, ast.List) or isinstance(n.right, ast.List)) and not (isinstance(n.left, ast.BinOp) and isinstance(getattr(n.left, "_v", None), list) and n.left._v[0] == "concat"):
            n._v = ["concat", 0]
            return n
        if isinstance(n.op, (ast.Add, ast.Mult)):
            if _num_const(n.left) and not isinstance(n.right, ast.Constant):
                m = ast.copy_location(ast.BinOp(left=n.right, op=n.op, right=n.left), n)
                m._v = 1
                return m
            if _num_const(n.right) and not isinstance(n.left, ast.Constant):
                n._v = 0
        return n


def _variant_nodes(nf: ast.AST) -> list:
    """nodes of the normal form that have a surface variant, in pre-order"""
    out = []
    stack = [nf]
    while stack:
        n = stack.pop()
        if hasattr(n, "_v"):
            out.append(n)
        stack.extend(reversed(list(ast.iter_child_nodes(n))))
    return out


def normal_form(fn: ast.AST):
    """(normal-form tree (a rewritten deep copy), digest, local names, variants)"""
    nf = copy.deepcopy(fn)
    for x in ast.walk(nf):
        if hasattr(x, "_v"):
            del x._v
    # N0: docstrings and annotations carry no behaviour: they are not part of the normal form
    for x in ast.walk(nf):
        if isinstance(x, (ast.FunctionDef, ast.AsyncFunctionDef)):
            if x.body and isinstance(x.body[0], ast.Expr) and isinstance(x.body[0].value, ast.Constant) and isinstance(x.body[0].value.value, str) and len(x.body) > 1:
                x.body = x.body[1:]
            x.returns = None
        elif isinstance(x, ast.arg):
            x.annotation = None

    nz = _Normaliser(nf)
    nf = nz.visit(nf)
    ast.fix_missing_locations(nf)
    nf._comp_names = _canon_comprehension_vars(nf)
    dig, order = _alpha(nf)
    variants = [n._v for n in _variant_nodes(nf)]
    return nf, dig, order, variants


class _Restorer(ast.NodeTransformer):
    """turns variant nodes of a normal form into the surface variant the baseline uses"""

    def __init__(self, want: dict):
        self.want = want  # id(node) -> variant

    def _blocks(self, node):
        for fld in ("body", "orelse", "finalbody"):
            b = getattr(node, fld, None)
            if isinstance(b, list) and b and isinstance(b[0], ast.stmt):
                nb = []
                for s in b:
                    if isinstance(s, list):
                        nb.extend(s)
                    else:
                        nb.append(s)
                setattr(node, fld, nb)
        return node

    def _renest(self, node):
        """N6, top-down: an `if` whose baseline surface had its tail in an `else` takes the next k statements back"""
        for fld in ("body", "orelse", "finalbody"):
            b = getattr(node, fld, None)
            if not (isinstance(b, list) and b and isinstance(b[0], ast.stmt)):
                continue
            out, i = [], 0
            while i < len(b):
                s = b[i]
                v = self.want.get(id(s))
                if isinstance(s, ast.If) and isinstance(v, list) and v and v[0] == "boolret" and v[1] == 1 and i + 1 < len(b):
                    r = ast.copy_location(ast.Return(value=ast.Call(func=ast.Name(id="bool", ctx=ast.Load()), args=[s.test], keywords=[])), s)
                    out.append(r)
                    i += 2
                    continue
                if isinstance(s, ast.If) and isinstance(v, list) and v and v[0] == "else" and v[1] > 0 and not s.orelse:
                    s.orelse = b[i + 1 : i + 1 + v[1]]
                    i += 1 + v[1]
                else:
                    i += 1
                out.append(s)
            setattr(node, fld, out)

    def generic_visit(self, node):
        self._renest(node)
        node = super().generic_visit(node)
        return self._blocks(node)

    def visit_Return(self, n):
        v = self.want.get(id(n), 0)
        n = self.generic_visit(n)
        if isinstance(v, str):
            a = ast.copy_location(ast.Assign(targets=[ast.Name(id=v, ctx=ast.Store())], value=n.value), n)
            r = ast.copy_location(ast.Return(value=ast.Name(id=v, ctx=ast.Load())), n)
            return [a, r]
        return n

    def visit_Assign(self, n):
        v = self.want.get(id(n), 0)
        n = self.generic_visit(n)
        if isinstance(v, list) and v and v[0] == "ann" and len(n.targets) == 1 and isinstance(n.targets[0], ast.Name):
            return ast.copy_location(ast.AnnAssign(target=n.targets[0], annotation=ast.parse(v[1], mode="eval").body, value=n.value, simple=1), n)
        return n

    def visit_AugAssign(self, n):
        v = self.want.get(id(n), 0)
        n = self.generic_visit(n)
        if v == 1:
            return ast.copy_location(ast.Assign(targets=[ast.Name(id=n.target.id, ctx=ast.Store())], value=ast.BinOp(left=ast.Name(id=n.target.id, ctx=ast.Load()), op=n.op, right=n.value)), n)
        return n

    def visit_Compare(self, n):
        v = self.want.get(id(n), 0)
        n = self.generic_visit(n)
        if v == 1:
            return ast.copy_location(ast.Compare(left=n.comparators[0], ops=[_UNFLIP[type(n.ops[0])]()], comparators=[n.left]), n)
        return n

    def visit_If(self, n):
        v = self.want.get(id(n), 0)
        n = self.generic_visit(n)
        if v == 1 or (isinstance(v, list) and v and v[0] == "else" and len(v) > 2 and v[2] == 1 and n.orelse):
            return ast.copy_location(ast.If(test=ast.UnaryOp(op=ast.Not(), operand=n.test), body=n.orelse, orelse=n.body), n)
        if isinstance(v, list) and v and v[0] == "minmax" and v[1] == 1:
            a = n.body[0]
            tgt = ast.dump(_strip_ctx(a.targets[0]))
            fn = "min" if ast.dump(_strip_ctx(n.test.comparators[0])) == tgt else "max"
            call = ast.Call(func=ast.Name(id=fn, ctx=ast.Load()), args=[_strip_ctx(a.targets[0]), a.value], keywords=[])
            return ast.copy_location(ast.Assign(targets=a.targets, value=call), n)
        return n

    def visit_BinOp(self, n):
        v = self.want.get(id(n), 0)
        n = self.generic_visit(n)
        if v == 1:
            return ast.copy_location(ast.BinOp(left=n.right, op=n.op, right=n.left), n)
        if isinstance(v, list) and v and v[0] == "concat" and v[1] == 1:
            segs = []

            def flat(e):
                if isinstance(e, ast.BinOp) and isinstance(e.op, ast.Add):
                    flat(e.left)
                    flat(e.right)
                else:
                    segs.append(e)

            flat(n)
            elts = []
            for sg in segs:
                if isinstance(sg, ast.List):
                    elts.extend(sg.elts)
                else:
                    elts.append(ast.Starred(value=sg, ctx=ast.Load()))
            return ast.copy_location(ast.List(elts=elts, ctx=ast.Load()), n)
        return n

    def visit_Call(self, n):
        v = self.want.get(id(n), 0)
        n = self.generic_visit(n)
        if isinstance(v, list) and v:
            if v[0] == "comp" and v[1] == 1 and n.args and isinstance(n.args[0], ast.GeneratorExp):
                return ast.copy_location(ast.SetComp(elt=n.args[0].elt, generators=n.args[0].generators), n)
            if v[0] == "zip":
                if len(v) > 2 and v[2] in (1, 2) and len(n.args) == 2:
                    f_ = ast.Name(id="pairwise", ctx=ast.Load()) if v[2] == 1 else ast.Attribute(value=ast.Name(id="itertools", ctx=ast.Load()), attr="pairwise", ctx=ast.Load())
                    return ast.copy_location(ast.Call(func=f_, args=[n.args[0]], keywords=[]), n)
                if v[1] == 1:
                    n.keywords = list(n.keywords) + [ast.keyword(arg="strict", value=ast.Constant(value=False))]
            if v[0] == "intround" and v[1] == 1:
                return ast.copy_location(ast.Call(func=ast.Name(id="int", ctx=ast.Load()), args=[n], keywords=[]), n)
        return n

    def visit_DictComp(self, n):
        v = self.want.get(id(n), 0)
        n = self.generic_visit(n)
        if isinstance(v, list) and v and v[0] == "fromkeys" and v[1] == 1:
            return ast.copy_location(ast.Call(func=ast.Attribute(value=ast.Name(id="dict", ctx=ast.Load()), attr="fromkeys", ctx=ast.Load()), args=[n.generators[0].iter, n.value], keywords=[]), n)
        return n


def _raw(node: ast.AST) -> str:
    return hashlib.sha1(ast.dump(node, annotate_fields=False, include_attributes=False).encode()).hexdigest()


def _all_args(a: ast.arguments) -> list:
    return a.posonlyargs + a.args + ([a.vararg] if a.vararg else []) + a.kwonlyargs + ([a.kwarg] if a.kwarg else [])


def skeleton(fn: ast.AST):
    """(digest, ordered local names) of the normal form.  The tree is not modified."""
    _, dig, order, _ = normal_form(fn)
    return dig, order


def _wrap(stmt: ast.stmt) -> ast.FunctionDef:
    """a module-level assignment as a pseudo unit, so that constants such as move tables get the same tolerance"""
    f = ast.FunctionDef(name="<module>", args=ast.arguments(posonlyargs=[], args=[], kwonlyargs=[], kw_defaults=[], defaults=[]), body=[stmt], decorator_list=[], returns=None, type_params=[])
    return ast.copy_location(f, stmt)


def module_units(tree: ast.Module):
    """(key, index in tree.body, statement) for every module-level assignment to a plain name"""
    for i, n in enumerate(tree.body):
        if isinstance(n, ast.Assign) and len(n.targets) == 1 and isinstance(n.targets[0], ast.Name):
            yield f"<module>.{n.targets[0].id}", i, n
        elif isinstance(n, ast.AnnAssign) and isinstance(n.target, ast.Name) and n.value is not None:
            yield f"<module>.{n.target.id}", i, n


def units(tree: ast.Module):
    """(qualified name, node) of every top-level function and every method of a top-level class"""
    for n in tree.body:
        if isinstance(n, (ast.FunctionDef, ast.AsyncFunctionDef)):
            yield n.name, n
        elif isinstance(n, ast.ClassDef):
            for m in n.body:
                if isinstance(m, (ast.FunctionDef, ast.AsyncFunctionDef)):
                    yield f"{n.name}.{m.name}", m


_BASELINE = None


def baseline() -> dict:
    global _BASELINE
    if _BASELINE is None:
        if os.path.exists(ANCHORS):
            with open(ANCHORS, encoding="utf-8") as fh:
                _BASELINE = json.load(fh)
        else:
            _BASELINE = {}
    return _BASELINE


def _restore_comp_names(nf: ast.AST, comp_names) -> None:
    """`_c<k>` -> the name the baseline gives its k-th comprehension variable"""
    if not comp_names:
        return
    for x in ast.walk(nf):
        if isinstance(x, ast.Name) and x.id.startswith("_c") and x.id[2:].isdigit() and int(x.id[2:]) < len(comp_names):
            x.id = comp_names[int(x.id[2:])]


# ---------------------------------------------------------------------------------------------------------------
# partial rename restoration: a unit that differs from its baseline by more than surface edits may still have had
# its locals renamed.  Statements that are unchanged up to local names vote for the name pairs they imply; a
# unanimous, injective, capture-free mapping is applied to the whole unit.  Renaming consistently is an
# alpha-conversion: the program analysed afterwards is the program that was written.
# ---------------------------------------------------------------------------------------------------------------
_SIMPLE_STMT = (ast.Assign, ast.AugAssign, ast.AnnAssign, ast.Expr, ast.Return, ast.Raise, ast.Assert, ast.Delete)


def _stmt_fingerprints(fn: ast.AST) -> list:
    """[(digest, [local names in order of first occurrence])] for every statement of the unit: simple statements as a
    whole, compound statements by their header, nested functions by name and parameters"""
    locals_ = _unit_locals(fn)
    out = []

    def fp(parts, kind=""):
        order: list[str] = []
        index: dict[str, int] = {}
        saved = []
        for part in parts:
            for n, attr in _occurrences_in(part, locals_):
                v = getattr(n, attr)
                if v not in index:
                    index[v] = len(order)
                    order.append(v)
                saved.append((n, attr, v))
                setattr(n, attr, f"\x00{index[v]}")
        try:
            dump = kind + ":" + "|".join(ast.dump(x, annotate_fields=False, include_attributes=False) if isinstance(x, ast.AST) else repr(x) for x in parts)
        finally:
            for n, attr, v in saved:
                setattr(n, attr, v)
        if order:
            out.append((hashlib.sha1(dump.encode()).hexdigest()[:16], order))

    stack = list(reversed(fn.body))
    while stack:
        st = stack.pop()
        if isinstance(st, _SIMPLE_STMT):
            if isinstance(st, ast.Expr) and isinstance(st.value, ast.Constant):
                continue
            fp([st])
        elif isinstance(st, (ast.For, ast.AsyncFor)):
            fp([st.target, st.iter], "for")
        elif isinstance(st, (ast.While, ast.If)):
            fp([st.test], type(st).__name__)
        elif isinstance(st, (ast.With, ast.AsyncWith)):
            fp([i_.context_expr for i_ in st.items] + [i_.optional_vars for i_ in st.items if i_.optional_vars is not None], "with")
        elif isinstance(st, (ast.FunctionDef, ast.AsyncFunctionDef)):
            hdr = ast.Name(id=st.name, ctx=ast.Load())
            args = [ast.Name(id=a.arg, ctx=ast.Load()) for a in _all_args(st.args)]
            fp([hdr] + args, "def")
        for fld in ("finalbody", "orelse", "handlers", "body"):
            sub = getattr(st, fld, None)
            if isinstance(sub, list):
                for x in reversed(sub):
                    if isinstance(x, ast.ExceptHandler):
                        stack.extend(reversed(x.body))
                    elif isinstance(x, ast.stmt):
                        stack.append(x)
    return out


def _occurrences_in(node: ast.AST, locals_: set[str]):
    stack = [node]
    while stack:
        n = stack.pop()
        if isinstance(n, ast.Name) and n.id in locals_:
            yield n, "id"
        elif isinstance(n, ast.arg) and n.arg in locals_:
            yield n, "arg"
        stack.extend(reversed(list(ast.iter_child_nodes(n))))


def _infer_renames(fn: ast.AST, base_fps: list) -> dict:
    from collections import Counter, defaultdict

    cur = _stmt_fingerprints(fn)
    by_b, by_c = defaultdict(list), defaultdict(list)
    for d, names in base_fps:
        by_b[d].append(names)
    for d, names in cur:
        by_c[d].append(names)
    votes: dict[str, Counter] = defaultdict(Counter)
    for d, cl in by_c.items():
        bl = by_b.get(d)
        if not bl or len(bl) != len(cl):
            continue
        w = 2 if len(cl) == 1 else 1
        for cn_, bn_ in zip(cl, bl):
            if len(cn_) != len(bn_):
                continue
            for c_, b_ in zip(cn_, bn_):
                votes[c_][b_] += w
    locals_ = _unit_locals(fn)
    params = {a.arg for a in _all_args(fn.args)}
    mapping = {}
    for c_, cnt in votes.items():
        if len(cnt) != 1:
            continue
        (b_, w), = cnt.items()
        if w >= 2 and c_ != b_ and b_ not in params:
            mapping[c_] = b_
    # injective
    targets = Counter(mapping.values())
    mapping = {c_: b_ for c_, b_ in mapping.items() if targets[b_] == 1}
    # capture-free: the new name is not a local that stays
    changed = True
    while changed:
        changed = False
        for c_, b_ in list(mapping.items()):
            if b_ in locals_ and b_ not in mapping:
                del mapping[c_]
                changed = True
    return mapping


def _apply_renames(fn: ast.AST, mapping: dict) -> None:
    for n, attr in list(_occurrences(fn, set(mapping))):
        if attr == "names":
            n.names = [mapping.get(x, x) for x in n.names]
        else:
            setattr(n, attr, mapping.get(getattr(n, attr), getattr(n, attr)))


# ---------------------------------------------------------------------------------------------------------------
# new aliases: a refactoring likes to name a sub-expression once (`row = matrix[i]`, `inf = float("inf")`,
# `n_orig = len(clauses)`) where the baseline wrote it in place.  A local the baseline unit does not have, bound once
# to a side-effect-free access path / constant whose parts are not rebound while it is in use, is substituted back.
# ---------------------------------------------------------------------------------------------------------------
_MUTATING = {"append", "extend", "insert", "pop", "remove", "clear", "sort", "reverse", "add", "discard", "update", "popleft", "appendleft", "setdefault", "popitem"}


# calls whose result may be named once and written in place elsewhere: immutable results always; fresh iterables only
# under the use restrictions checked in _inline_new_aliases
_ALIAS_CALLS = ("zip", "range", "enumerate", "list", "tuple", "len", "abs", "min", "max")
_FRESH_ITERABLE = ("zip", "range", "enumerate", "list", "tuple")


def _path_ok(e: ast.AST) -> bool:
    if isinstance(e, (ast.Name, ast.Constant)):
        return True
    if isinstance(e, ast.Attribute):
        return _path_ok(e.value)
    if isinstance(e, ast.Subscript):
        return _path_ok(e.value) and _path_ok(e.slice)
    if isinstance(e, ast.UnaryOp) and isinstance(e.op, (ast.USub, ast.UAdd)):
        return _path_ok(e.operand)
    if isinstance(e, ast.BinOp) and isinstance(e.op, (ast.Add, ast.Sub, ast.Mult)):
        return _path_ok(e.left) and _path_ok(e.right)
    if isinstance(e, ast.Compare):
        return _path_ok(e.left) and all(_path_ok(c) for c in e.comparators)
    if isinstance(e, ast.Call) and isinstance(e.func, ast.Name) and not e.keywords and len(e.args) == 1:
        if e.func.id == "float" and isinstance(e.args[0], ast.Constant):
            return True
        if e.func.id == "len" and isinstance(e.args[0], ast.Name):
            return True
    if isinstance(e, ast.Call) and isinstance(e.func, ast.Name) and e.func.id in _ALIAS_CALLS and not e.keywords and e.args and all(_path_ok(a_) or (isinstance(a_, ast.Subscript) and _path_ok(a_.value) and isinstance(a_.slice, ast.Slice) and all(x is None or _path_ok(x) for x in (a_.slice.lower, a_.slice.upper, a_.slice.step))) for a_ in e.args):
        return True
    return False


def _prefixes(e: ast.AST) -> list[str]:
    out = []
    while isinstance(e, (ast.Subscript, ast.Attribute)):
        out.append(ast.unparse(e))
        e = e.value
    if isinstance(e, ast.Name):
        out.append(e.id)
    return out


def _eval_positions(stmts: list):
    """(position, enclosing loops) of every node in `stmts` in an order that respects evaluation: the value of an
    assignment before its targets, a test before its branches; nodes of one expression share a position"""
    pos: dict = {}
    loops_of: dict = {}
    counter = [0]

    def expr(e, loops):
        if e is None:
            return
        for x in ast.walk(e):
            pos[id(x)] = counter[0]
            loops_of[id(x)] = loops
        counter[0] += 1

    def block(body, loops):
        for st in body:
            stmt(st, loops)

    def stmt(st, loops):
        pos[id(st)] = counter[0]
        loops_of[id(st)] = loops
        if isinstance(st, ast.Assign):
            expr(st.value, loops)
            for t in st.targets:
                expr(t, loops)
        elif isinstance(st, (ast.AugAssign, ast.AnnAssign)):
            expr(st.value, loops)
            expr(st.target, loops)
        elif isinstance(st, ast.If):
            expr(st.test, loops)
            block(st.body, loops)
            block(st.orelse, loops)
        elif isinstance(st, (ast.For, ast.AsyncFor)):
            expr(st.iter, loops)
            inner = loops + (st,)
            expr(st.target, inner)
            block(st.body, inner)
            block(st.orelse, loops)
        elif isinstance(st, ast.While):
            inner = loops + (st,)
            expr(st.test, inner)
            block(st.body, inner)
            block(st.orelse, loops)
        elif isinstance(st, (ast.With, ast.AsyncWith)):
            for it in st.items:
                expr(it.context_expr, loops)
                expr(it.optional_vars, loops)
            block(st.body, loops)
        elif isinstance(st, ast.Try):
            block(st.body, loops)
            for h in st.handlers:
                block(h.body, loops)
            block(st.orelse, loops)
            block(st.finalbody, loops)
        else:
            expr(st, loops)

    block(stmts, ())
    return pos, loops_of


def _inline_new_aliases(fn: ast.AST, base_names: list) -> int:
    known = set(base_names)
    params = {a.arg for a in _all_args(fn.args)}
    count = 0

    def scope_nodes(f):
        stack = list(f.body)
        while stack:
            n = stack.pop()
            yield n
            for c in ast.iter_child_nodes(n):
                if not isinstance(c, (ast.FunctionDef, ast.AsyncFunctionDef, ast.Lambda, ast.ClassDef)):
                    stack.append(c)

    for f in [x for x in ast.walk(fn) if isinstance(x, (ast.FunctionDef, ast.AsyncFunctionDef))]:
        own_params = {a.arg for a in _all_args(f.args)}
        changed = True
        while changed:
            changed = False
            blocks = [getattr(n, fld) for n in [f] + [x for x in scope_nodes(f)] for fld in ("body", "orelse", "finalbody") if isinstance(getattr(n, fld, None), list) and getattr(n, fld) and isinstance(getattr(n, fld)[0], ast.stmt)]
            for B in blocks:
                for i, st in enumerate(B):
                    if not (isinstance(st, ast.Assign) and len(st.targets) == 1 and isinstance(st.targets[0], ast.Name)):
                        continue
                    a = st.targets[0].id
                    if a in known or a in params or a in own_params or not _path_ok(st.value):
                        continue
                    # exactly one binding in the whole unit, no other kind of binding or deletion
                    occ = [n for n in ast.walk(fn) if isinstance(n, ast.Name) and n.id == a]
                    if sum(1 for n in occ if isinstance(n.ctx, (ast.Store, ast.Del))) != 1:
                        continue
                    if any(isinstance(n, (ast.Nonlocal, ast.Global)) and a in n.names for n in ast.walk(fn)):
                        continue
                    if any(isinstance(n, ast.arg) and n.arg == a for n in ast.walk(fn)):
                        continue
                    later = B[i + 1:]
                    later_nodes = [n for x in later for n in ast.walk(x)]
                    loads = [n for n in occ if isinstance(n.ctx, ast.Load)]
                    if not loads or any(all(n is not m for m in later_nodes) for n in loads):
                        continue  # a use outside the statements that follow in this block
                    in_nested = any(isinstance(n, (ast.FunctionDef, ast.AsyncFunctionDef, ast.Lambda)) and any(isinstance(m, ast.Name) and m.id == a for m in ast.walk(n)) for n in later_nodes)
                    if in_nested and not (f is fn and B is fn.body):
                        continue
                    parts = {n.id for n in ast.walk(st.value) if isinstance(n, ast.Name)}
                    if any(isinstance(n, ast.Name) and n.id in parts and isinstance(n.ctx, (ast.Store, ast.Del)) for n in later_nodes):
                        continue
                    pre = {ast.unparse(x) for x in ast.walk(st.value) if isinstance(x, ast.Call) for x in x.args if isinstance(x, ast.Name)}
                    for x in ast.walk(st.value):
                        if isinstance(x, (ast.Subscript, ast.Attribute)):
                            pre |= set(_prefixes(x))
                    whole = ast.unparse(st.value) if isinstance(st.value, (ast.Subscript, ast.Attribute)) else None
                    # statements that may change what the expression denotes: (position in `later`, is the store the
                    # direct target of that statement)
                    events = []
                    for k_, top in enumerate(later):
                        for n in ast.walk(top):
                            hit = False
                            if isinstance(n, ast.Subscript) and isinstance(n.ctx, (ast.Store, ast.Del)) and (ast.unparse(n) in pre or (ast.unparse(n.value) in pre and ast.unparse(n.value) != whole)):
                                hit = True
                            elif isinstance(n, ast.Attribute) and isinstance(n.ctx, (ast.Store, ast.Del)) and ast.unparse(n) in pre:
                                hit = True
                            elif isinstance(n, ast.Call) and isinstance(n.func, ast.Attribute) and n.func.attr in _MUTATING and ast.unparse(n.func.value) in (pre - {whole}):
                                hit = True
                            if hit:
                                events.append(n)
                    bad = False
                    if events:
                        # every use is evaluated before the first such store (right-hand sides come before their
                        # targets), and none can be reached again from it through a loop; closures run at any time
                        pos, loops_of = _eval_positions(later)
                        first = min(pos.get(id(n), -1) for n in events)
                        looping = {id(l_) for n in events for l_ in loops_of.get(id(n), ())}
                        if in_nested or any(pos.get(id(n), 10 ** 9) >= first for n in loads) or any(id(l_) in looping for n in loads for l_ in loops_of.get(id(n), ())):
                            bad = True
                    if isinstance(st.value, ast.Call) and isinstance(st.value.func, ast.Name) and st.value.func.id in _FRESH_ITERABLE:
                        # a fresh iterable written in place is a *new* object at every use: the same thing only if it
                        # is used once, or (list / tuple) if every use just iterates over it
                        iter_only = all(any((isinstance(p_, (ast.For, ast.comprehension)) and p_.iter is n) for p_ in later_nodes) for n in loads)
                        if not (len(loads) == 1 or (st.value.func.id in ("list", "tuple") and iter_only)):
                            continue
                    if isinstance(st.value, ast.Call) and isinstance(st.value.func, ast.Name) and st.value.func.id == "len":
                        nm = st.value.args[0].id
                        for n in later_nodes:
                            if isinstance(n, ast.Subscript) and isinstance(n.ctx, (ast.Store, ast.Del)) and isinstance(n.value, ast.Name) and n.value.id == nm:
                                bad = True
                    if bad:
                        continue
                    for n in loads:
                        for parent in later_nodes:
                            for fld, val in ast.iter_fields(parent):
                                if val is n:
                                    setattr(parent, fld, copy.deepcopy(st.value))
                                elif isinstance(val, list):
                                    for k_, v_ in enumerate(val):
                                        if v_ is n:
                                            val[k_] = copy.deepcopy(st.value)
                    del B[i]
                    if not B:
                        B.append(ast.Pass())
                    count += 1
                    changed = True
                    break
                if changed:
                    break
    if count:
        ast.fix_missing_locations(fn)
    return count


# ---------------------------------------------------------------------------------------------------------------
# deep normal form: one-way canonicalisations on top of N0-N14, used only to decide whether a unit that differs from
# its baseline is a behaviour-preserving rewrite of it.  If the deep digests agree the baseline's own text (kept in
# anchors/locals.json) is analysed in its place - every rule below preserves behaviour, so that is the same program.
#   D1  `if T: continue` + REST (in a loop body)         ->  `if not T: REST`
#   D2  `if a: if b: X` (no else on either)               ->  `if a and b: X`
#   D2b `if b: J` `if c: J` (same body J ending in a jump) -> `if b or c: J`
#   D4  `for x in it: if c: return R`                     ->  `if any(c for x in it): return R`
#   D5  `L = []` + loop of `L.append(e)` / `d = {}` + loop of `d[k] = v` / loop of `S.add(e)`  ->  comprehension / update
#   D6  a local bound once to a side-effect-free access path or constant is substituted into its uses
#   D7  `a, b = x, y` with independent sides               ->  `a = x` `b = y`
# ---------------------------------------------------------------------------------------------------------------
_NEG_CMP = {ast.In: ast.NotIn, ast.NotIn: ast.In, ast.Is: ast.IsNot, ast.IsNot: ast.Is, ast.Eq: ast.NotEq, ast.NotEq: ast.Eq}


def _negate(t: ast.AST) -> ast.AST:
    if isinstance(t, ast.UnaryOp) and isinstance(t.op, ast.Not):
        return t.operand
    if isinstance(t, ast.Compare) and len(t.ops) == 1 and type(t.ops[0]) in _NEG_CMP:
        return ast.copy_location(ast.Compare(left=t.left, ops=[_NEG_CMP[type(t.ops[0])]()], comparators=t.comparators), t)
    return ast.copy_location(ast.UnaryOp(op=ast.Not(), operand=t), t)


def _same(a, b) -> bool:
    return ast.dump(a) == ast.dump(b)


def _and(a: ast.AST, b: ast.AST) -> ast.AST:
    vals = (a.values if isinstance(a, ast.BoolOp) and isinstance(a.op, ast.And) else [a]) + (b.values if isinstance(b, ast.BoolOp) and isinstance(b.op, ast.And) else [b])
    return ast.copy_location(ast.BoolOp(op=ast.And(), values=vals), a)


def _or(a: ast.AST, b: ast.AST) -> ast.AST:
    vals = (a.values if isinstance(a, ast.BoolOp) and isinstance(a.op, ast.Or) else [a]) + (b.values if isinstance(b, ast.BoolOp) and isinstance(b.op, ast.Or) else [b])
    return ast.copy_location(ast.BoolOp(op=ast.Or(), values=vals), a)


def _comp_of_loop(loop: ast.For, sink_ok):
    """(element, generators) if the loop (possibly nested, possibly filtered) does nothing but feed one sink"""
    gens = []
    cur = loop
    while True:
        if not isinstance(cur, ast.For) or cur.orelse:
            return None
        g = ast.comprehension(target=cur.target, iter=cur.iter, ifs=[], is_async=0)
        gens.append(g)
        body = cur.body
        while len(body) == 1 and isinstance(body[0], ast.If) and not body[0].orelse:
            g.ifs.append(body[0].test)
            body = body[0].body
        if len(body) != 1:
            return None
        if isinstance(body[0], ast.For):
            cur = body[0]
            continue
        el = sink_ok(body[0])
        if el is None:
            return None
        return el, gens


def _aggregate_ok(e: ast.AST) -> bool:
    """side-effect-free enough to be moved into the next statement: access paths, arithmetic, comparisons and the
    builtin aggregates over comprehensions of such"""
    for x in ast.walk(e):
        if isinstance(x, ast.Call) and not (isinstance(x.func, ast.Name) and x.func.id in ("sum", "min", "max", "len", "abs", "any", "all", "sorted", "tuple", "list", "set", "float", "int", "round", "range", "zip", "enumerate")):
            return False
        if isinstance(x, (ast.Await, ast.Yield, ast.YieldFrom, ast.NamedExpr, ast.Lambda)):
            return False
    return True


def _call_free(e: ast.AST) -> bool:
    return not any(isinstance(x, (ast.Call, ast.NamedExpr, ast.Await, ast.Yield, ast.YieldFrom, ast.Lambda)) for x in ast.walk(e))


def _is_negative(t: ast.AST) -> bool:
    return (isinstance(t, ast.UnaryOp) and isinstance(t.op, ast.Not)) or (isinstance(t, ast.Compare) and len(t.ops) == 1 and isinstance(t.ops[0], (ast.NotIn, ast.IsNot, ast.NotEq)))


def _canon_test(t: ast.AST) -> ast.AST:
    """truth-value preserving canonical form of a condition: `not` pushed through and/or (De Morgan),
    `(a and b) or (not a and c)` with call-free a, b  ->  `b if a else c`, conditional expressions with a positive test"""
    if isinstance(t, ast.UnaryOp) and isinstance(t.op, ast.Not) and isinstance(t.operand, ast.BoolOp):
        flipped = ast.Or() if isinstance(t.operand.op, ast.And) else ast.And()
        return _canon_test(ast.copy_location(ast.BoolOp(op=flipped, values=[_negate(v) for v in t.operand.values]), t))
    if isinstance(t, ast.BoolOp):
        vals = []
        for v in t.values:
            v = _canon_test(v)
            if isinstance(v, ast.BoolOp) and type(v.op) is type(t.op):
                vals.extend(v.values)
            else:
                vals.append(v)
        t = ast.copy_location(ast.BoolOp(op=t.op, values=vals), t)
        if isinstance(t.op, ast.Or) and len(vals) == 2 and all(isinstance(v, ast.BoolOp) and isinstance(v.op, ast.And) for v in vals):
            (p, *bs), (q, *cs) = vals[0].values, vals[1].values
            if _call_free(p) and _call_free(q) and all(_call_free(b) for b in bs):
                conj = lambda xs: xs[0] if len(xs) == 1 else ast.BoolOp(op=ast.And(), values=xs)  # noqa: E731
                if _same(_negate(q), p) or _same(_negate(p), q):
                    return _canon_test(ast.copy_location(ast.IfExp(test=p, body=conj(bs), orelse=conj(cs)), t))
        return t
    if isinstance(t, ast.IfExp):
        test, body, orelse = _canon_test(t.test), _canon_test(t.body), _canon_test(t.orelse)
        if _is_negative(test):
            test, body, orelse = _negate(test), orelse, body
        return ast.copy_location(ast.IfExp(test=test, body=body, orelse=orelse), t)
    return t


def _linear(e: ast.AST):
    """integer-linear reading of an expression: ([(atom, coefficient)...] in order of first appearance, constant)"""
    if isinstance(e, ast.Constant) and isinstance(e.value, int) and not isinstance(e.value, bool):
        return [], e.value
    if isinstance(e, ast.UnaryOp) and isinstance(e.op, ast.USub):
        r = _linear(e.operand)
        return None if r is None else ([(a, -c) for a, c in r[0]], -r[1])
    if isinstance(e, ast.BinOp) and isinstance(e.op, (ast.Add, ast.Sub)):
        l, r = _linear(e.left), _linear(e.right)
        if l is None or r is None:
            return None
        sg = 1 if isinstance(e.op, ast.Add) else -1
        terms = list(l[0])
        for a, c in r[0]:
            for k, (a2, c2) in enumerate(terms):
                if _same(a, a2):
                    terms[k] = (a2, c2 + sg * c)
                    break
            else:
                terms.append((a, sg * c))
        return terms, l[1] + sg * r[1]
    if isinstance(e, ast.BinOp) and isinstance(e.op, ast.Mult):
        for k_, x_ in ((e.left, e.right), (e.right, e.left)):
            if isinstance(k_, ast.Constant) and isinstance(k_.value, int) and not isinstance(k_.value, bool):
                r = _linear(x_)
                return None if r is None else ([(a, c * k_.value) for a, c in r[0]], r[1] * k_.value)
    if _call_free(e) or (isinstance(e, ast.Call) and isinstance(e.func, ast.Name) and e.func.id == "len" and len(e.args) == 1 and _call_free(e.args[0])):
        return [(e, 1)], 0
    return None


def _linear_canon(e: ast.AST) -> ast.AST:
    """`n + m + m` and `n + 2 * m` read the same - used where the value is an integer by construction (range bounds)"""
    r = _linear(e)
    if r is None:
        return e
    terms, const = [(a, c) for a, c in r[0] if c != 0], r[1]
    out = None
    for a, c in terms:
        mag = a if abs(c) == 1 else ast.BinOp(left=ast.Constant(value=abs(c)), op=ast.Mult(), right=a)
        if out is None:
            out = mag if c > 0 else ast.UnaryOp(op=ast.USub(), operand=mag)
        else:
            out = ast.BinOp(left=out, op=ast.Add() if c > 0 else ast.Sub(), right=mag)
    if out is None:
        out = ast.Constant(value=const)
    elif const:
        out = ast.BinOp(left=out, op=ast.Add() if const > 0 else ast.Sub(), right=ast.Constant(value=abs(const)))
    return ast.copy_location(out, e)


def _parent_map(nodes) -> dict:
    pm = {}
    for root in nodes:
        for x in ast.walk(root):
            for c in ast.iter_child_nodes(x):
                pm[id(c)] = x
    return pm


def _plain_path(e: ast.AST) -> bool:
    """a name, or attributes / constant or name subscripts of one"""
    if isinstance(e, ast.Name):
        return True
    if isinstance(e, ast.Attribute):
        return _plain_path(e.value)
    if isinstance(e, ast.Subscript):
        return _plain_path(e.value) and isinstance(e.slice, (ast.Name, ast.Constant))
    return False


def _only_read(nodes, cont: ast.AST) -> bool:
    """inside `nodes` the container denoted by the path `cont` is only looked into (`cont[..]` loads, `.. in cont`,
    `len(cont)`), no prefix of the path is assigned, and the names it is made of are not handed to anything"""
    text = ast.unparse(cont)
    prefixes = set(_prefixes(cont)) if not isinstance(cont, ast.Name) else {cont.id}
    names = {x.id for x in ast.walk(cont) if isinstance(x, ast.Name)}
    pm = _parent_map(nodes)
    for root in nodes:
        for x in ast.walk(root):
            if isinstance(x, (ast.Name, ast.Attribute, ast.Subscript)) and isinstance(x.ctx, (ast.Store, ast.Del)) and ast.unparse(x) in prefixes | names:
                return False
            if isinstance(x, (ast.Name, ast.Attribute, ast.Subscript)) and isinstance(x.ctx, ast.Load) and ast.unparse(x) == text:
                par = pm.get(id(x))
                if isinstance(par, ast.Subscript) and par.value is x and isinstance(par.ctx, ast.Load):
                    continue
                if isinstance(par, ast.Compare) and len(par.ops) == 1 and isinstance(par.ops[0], (ast.In, ast.NotIn)) and par.comparators[0] is x:
                    continue
                if isinstance(par, ast.Call) and isinstance(par.func, ast.Name) and par.func.id == "len" and par.args == [x]:
                    continue
                return False
            if isinstance(x, ast.Name) and x.id in names and isinstance(x.ctx, ast.Load) and not isinstance(cont, ast.Name):
                # part of the path: fine inside an attribute / subscript load, not on its own
                par = pm.get(id(x))
                if not (isinstance(par, (ast.Attribute, ast.Subscript)) and isinstance(par.ctx, ast.Load)):
                    return False
    return True


def _binds(nodes, names: set) -> bool:
    for root in nodes:
        for x in ast.walk(root):
            if isinstance(x, ast.Name) and x.id in names and isinstance(x.ctx, (ast.Store, ast.Del)):
                return True
            if isinstance(x, ast.arg) and x.arg in names:
                return True
            if isinstance(x, (ast.Nonlocal, ast.Global)) and set(x.names) & names:
                return True
    return False


def _mentions_in_closure(nodes, names: set) -> bool:
    for root in nodes:
        for x in ast.walk(root):
            if isinstance(x, (ast.FunctionDef, ast.AsyncFunctionDef, ast.Lambda)) and any(isinstance(y, ast.Name) and y.id in names for y in ast.walk(x)):
                return True
    return False


def _pair_view(it: ast.AST):
    """('items', D) for `D.items()`, ('enum', X) for `enumerate(X)` with D / X a plain access path"""
    if isinstance(it, ast.Call) and not it.keywords:
        if isinstance(it.func, ast.Attribute) and it.func.attr == "items" and not it.args and _plain_path(it.func.value):
            return "items", it.func.value
        if isinstance(it.func, ast.Name) and it.func.id == "enumerate" and len(it.args) == 1 and _plain_path(it.args[0]):
            return "enum", it.args[0]
    return None


def _element_of(kind: str, cont: ast.AST, key: str) -> ast.AST:
    return ast.Subscript(value=copy.deepcopy(cont), slice=ast.Name(id=key, ctx=ast.Load()), ctx=ast.Load())


def _index_iter(kind: str, cont: ast.AST) -> ast.AST:
    if kind == "items":
        return copy.deepcopy(cont)
    return ast.Call(func=ast.Name(id="range", ctx=ast.Load()), args=[ast.Call(func=ast.Name(id="len", ctx=ast.Load()), args=[copy.deepcopy(cont)], keywords=[])], keywords=[])


_sd_counter = [0]


def _fresh_empty(e: ast.AST) -> bool:
    if isinstance(e, (ast.List, ast.Set, ast.Tuple)) and not e.elts:
        return True
    if isinstance(e, ast.Dict) and not e.keys:
        return True
    return isinstance(e, ast.Call) and isinstance(e.func, ast.Name) and e.func.id in ("set", "list", "dict") and not e.args and not e.keywords


class _NameRepl(ast.NodeTransformer):
    def __init__(self, name, value):
        self.name, self.value = name, value

    def visit_Name(self, n):
        if n.id == self.name and isinstance(n.ctx, ast.Load):
            return ast.copy_location(copy.deepcopy(self.value), n)
        return n


class _Deep(ast.NodeTransformer):
    def __init__(self, root=None):
        self.changed = False
        self.root = root

    def _single_binding(self, name: str) -> bool:
        if self.root is None:
            return False
        return sum(1 for x in ast.walk(self.root) if isinstance(x, ast.Name) and x.id == name and isinstance(x.ctx, (ast.Store, ast.Del))) == 1 and not any(isinstance(x, ast.arg) and x.arg == name for x in ast.walk(self.root)) and not any(isinstance(x, (ast.Nonlocal, ast.Global)) and name in x.names for x in ast.walk(self.root))

    def _block(self, body: list, in_loop: bool) -> list:
        out = list(body)
        i = 0
        while i < len(out):
            s = out[i]
            # D1
            if in_loop and isinstance(s, ast.If) and not s.orelse and s.body and isinstance(s.body[-1], ast.Continue) and i + 1 < len(out):
                rest = out[i + 1:]
                if len(s.body) == 1:
                    new = ast.copy_location(ast.If(test=_negate(s.test), body=rest, orelse=[]), s)
                else:
                    new = ast.copy_location(ast.If(test=s.test, body=s.body[:-1], orelse=rest), s)
                out = out[:i] + [new]
                self.changed = True
                continue
            # D8: `if not E: A else: B` -> `if E: B else: A`
            if isinstance(s, ast.If) and s.orelse and isinstance(s.test, ast.UnaryOp) and isinstance(s.test.op, ast.Not) and not (len(s.orelse) == 1 and isinstance(s.orelse[0], ast.If)):
                s.test, s.body, s.orelse = s.test.operand, s.orelse, s.body
                self.changed = True
                continue
            # D2
            if isinstance(s, ast.If) and not s.orelse and len(s.body) == 1 and isinstance(s.body[0], ast.If) and not s.body[0].orelse:
                inner = s.body[0]
                s.test = _and(s.test, inner.test)
                s.body = inner.body
                self.changed = True
                continue
            # D2b
            if isinstance(s, ast.If) and not s.orelse and i + 1 < len(out) and isinstance(out[i + 1], ast.If) and not out[i + 1].orelse and s.body and isinstance(s.body[-1], (ast.Return, ast.Continue, ast.Break, ast.Raise)) and len(s.body) == len(out[i + 1].body) and all(_same(a_, b_) for a_, b_ in zip(s.body, out[i + 1].body)):
                s.test = _or(s.test, out[i + 1].test)
                del out[i + 1]
                self.changed = True
                continue
            # D4
            if isinstance(s, ast.For) and not s.orelse and len(s.body) == 1 and isinstance(s.body[0], ast.If) and not s.body[0].orelse and len(s.body[0].body) == 1 and isinstance(s.body[0].body[0], ast.Return):
                gen = ast.GeneratorExp(elt=s.body[0].test, generators=[ast.comprehension(target=s.target, iter=s.iter, ifs=[], is_async=0)])
                call = ast.Call(func=ast.Name(id="any", ctx=ast.Load()), args=[gen], keywords=[])
                new = ast.If(test=call, body=s.body[0].body, orelse=[])
                out[i] = ast.copy_location(new, s)
                ast.fix_missing_locations(out[i])
                self.changed = True
                continue
            # D5: `L = []` / `d = {}` followed by the loop that fills it
            if isinstance(s, ast.Assign) and len(s.targets) == 1 and isinstance(s.targets[0], ast.Name) and i + 1 < len(out) and isinstance(out[i + 1], ast.For):
                nm = s.targets[0].id
                v = s.value
                kind = "list" if isinstance(v, ast.List) and not v.elts else ("dict" if isinstance(v, ast.Dict) and not v.keys else ("set" if isinstance(v, ast.Call) and isinstance(v.func, ast.Name) and v.func.id == "set" and not v.args else None))
                if kind:
                    def sink(st, nm=nm, kind=kind):
                        if kind in ("list", "set") and isinstance(st, ast.Expr) and isinstance(st.value, ast.Call) and isinstance(st.value.func, ast.Attribute) and isinstance(st.value.func.value, ast.Name) and st.value.func.value.id == nm and st.value.func.attr == ("append" if kind == "list" else "add") and len(st.value.args) == 1:
                            return st.value.args[0]
                        if kind == "dict" and isinstance(st, ast.Assign) and len(st.targets) == 1 and isinstance(st.targets[0], ast.Subscript) and isinstance(st.targets[0].value, ast.Name) and st.targets[0].value.id == nm:
                            return (st.targets[0].slice, st.value)
                        return None

                    r = _comp_of_loop(out[i + 1], sink)
                    uses_self = r is not None and any(isinstance(x, ast.Name) and x.id == nm for g_ in r[1] for x in ast.walk(g_)) or (r is not None and any(isinstance(x, ast.Name) and x.id == nm for e_ in (r[0] if isinstance(r[0], tuple) else (r[0],)) for x in ast.walk(e_)))
                    if r is not None and not uses_self:
                        el, gens = r
                        comp = ast.ListComp(elt=el, generators=gens) if kind == "list" else (ast.SetComp(elt=el, generators=gens) if kind == "set" else ast.DictComp(key=el[0], value=el[1], generators=gens))
                        s.value = ast.copy_location(comp, s.value)
                        ast.fix_missing_locations(s)
                        del out[i + 1]
                        self.changed = True
                        continue
            # D5b: a loop that only adds to a set that exists already
            if isinstance(s, ast.For):
                def sink2(st):
                    if isinstance(st, ast.Expr) and isinstance(st.value, ast.Call) and isinstance(st.value.func, ast.Attribute) and isinstance(st.value.func.value, ast.Name) and st.value.func.attr == "add" and len(st.value.args) == 1:
                        return (st.value.func.value.id, st.value.args[0], [])
                    if isinstance(st, ast.Expr) and isinstance(st.value, ast.Call) and isinstance(st.value.func, ast.Attribute) and isinstance(st.value.func.value, ast.Name) and st.value.func.attr == "update" and len(st.value.args) == 1 and isinstance(st.value.args[0], ast.GeneratorExp):
                        return (st.value.func.value.id, st.value.args[0].elt, st.value.args[0].generators)
                    return None

                r = _comp_of_loop(s, sink2)
                if r is not None:
                    (nm, el, more), gens = r
                    gens = gens + list(more)
                    if not any(isinstance(x, ast.Name) and x.id == nm for g_ in gens for x in ast.walk(g_)):
                        call = ast.Call(func=ast.Attribute(value=ast.Name(id=nm, ctx=ast.Load()), attr="update", ctx=ast.Load()), args=[ast.GeneratorExp(elt=el, generators=gens)], keywords=[])
                        out[i] = ast.copy_location(ast.Expr(value=call), s)
                        ast.fix_missing_locations(out[i])
                        self.changed = True
                        continue
            # D9: iterating a fresh list()/tuple() of zip / range / enumerate is iterating the thing itself
            if isinstance(s, ast.For) and isinstance(s.iter, ast.Call) and isinstance(s.iter.func, ast.Name) and s.iter.func.id in ("list", "tuple") and len(s.iter.args) == 1 and not s.iter.keywords and isinstance(s.iter.args[0], ast.Call) and isinstance(s.iter.args[0].func, ast.Name) and s.iter.args[0].func.id in ("zip", "range", "enumerate"):
                s.iter = s.iter.args[0]
                self.changed = True
                continue
            # D10: `if a: (if b: J1) J2` with J1, J2 ending in jumps and a side-effect-free `a` -> `if a and b: J1` `if a: J2`
            if isinstance(s, ast.If) and not s.orelse and len(s.body) >= 2 and isinstance(s.body[0], ast.If) and not s.body[0].orelse and s.body[0].body and isinstance(s.body[0].body[-1], (ast.Return, ast.Continue, ast.Break, ast.Raise)) and isinstance(s.body[-1], (ast.Return, ast.Continue, ast.Break, ast.Raise)) and _path_ok(s.test.operand if isinstance(s.test, ast.UnaryOp) and isinstance(s.test.op, ast.Not) else s.test):
                inner = s.body[0]
                first = ast.copy_location(ast.If(test=_and(copy.deepcopy(s.test), inner.test), body=inner.body, orelse=[]), s)
                s.body = s.body[1:]
                out[i:i + 1] = [first, s]
                self.changed = True
                continue
            # D12: `n = self._n = E`  ->  `self._n = E` `n = self._n`
            if isinstance(s, ast.Assign) and len(s.targets) == 2 and isinstance(s.targets[0], ast.Name) and isinstance(s.targets[1], (ast.Attribute, ast.Subscript)) and _path_ok(s.targets[1]):
                keep = ast.copy_location(ast.Assign(targets=[s.targets[1]], value=s.value), s)
                load = copy.deepcopy(s.targets[1])
                for x_ in ast.walk(load):
                    if hasattr(x_, "ctx"):
                        x_.ctx = ast.Load()
                alias = ast.copy_location(ast.Assign(targets=[s.targets[0]], value=load), s)
                out[i:i + 1] = [keep, alias]
                self.changed = True
                continue
            # D11: a value named for the very next statement only (`t = E` `if t < x: ..`) is written in place
            if isinstance(s, ast.Assign) and len(s.targets) == 1 and isinstance(s.targets[0], ast.Name) and i + 1 < len(out) and _aggregate_ok(s.value):
                t_ = s.targets[0].id
                nxt = out[i + 1]
                head = nxt.test if isinstance(nxt, (ast.If, ast.While)) else (nxt.value if isinstance(nxt, (ast.Return, ast.Assign, ast.Expr)) and nxt.value is not None else None)
                if head is not None:
                    uses_head = [x_ for x_ in ast.walk(head) if isinstance(x_, ast.Name) and x_.id == t_ and isinstance(x_.ctx, ast.Load)]
                    elsewhere = [x_ for st_ in out[i + 1:] for x_ in ast.walk(st_) if isinstance(x_, ast.Name) and x_.id == t_ and not any(x_ is y_ for y_ in uses_head)]
                    before = [x_ for st_ in out[:i] for x_ in ast.walk(st_) if isinstance(x_, ast.Name) and x_.id == t_]
                    pure_head = all(isinstance(x_, (ast.Name, ast.Constant, ast.Subscript, ast.Attribute, ast.Compare, ast.BinOp, ast.UnaryOp, ast.BoolOp, ast.Load, ast.operator, ast.cmpop, ast.unaryop, ast.boolop, ast.Tuple, ast.expr_context)) for x_ in ast.walk(head))
                    if len(uses_head) == 1 and not elsewhere and not before and pure_head and self._single_binding(t_):
                        repl = _NameRepl(t_, s.value)
                        if isinstance(nxt, (ast.If, ast.While)):
                            nxt.test = repl.visit(nxt.test)
                        else:
                            nxt.value = repl.visit(nxt.value)
                        del out[i]
                        self.changed = True
                        continue
            # D18: `if c: J` REST `J` (J the same return / break)  ->  `if not c: REST` `J`
            if isinstance(s, ast.If) and not s.orelse and len(s.body) == 1 and isinstance(s.body[0], (ast.Return, ast.Break)) and i + 2 < len(out) and _same(s.body[0], out[-1]):
                new = ast.copy_location(ast.If(test=_negate(s.test), body=out[i + 1:-1], orelse=[]), s)
                out = out[:i] + [new, out[-1]]
                self.changed = True
                continue
            # D19: `if a: (if b: X) else: (if c: X)`  ->  `if (b if a else c): X`
            if isinstance(s, ast.If) and len(s.body) == 1 and isinstance(s.body[0], ast.If) and not s.body[0].orelse and len(s.orelse) == 1 and isinstance(s.orelse[0], ast.If) and not s.orelse[0].orelse and len(s.body[0].body) == len(s.orelse[0].body) and all(_same(a_, b_) for a_, b_ in zip(s.body[0].body, s.orelse[0].body)):
                s.test = ast.copy_location(ast.IfExp(test=s.test, body=s.body[0].test, orelse=s.orelse[0].test), s.test)
                s.body = s.body[0].body
                s.orelse = []
                self.changed = True
                continue
            # D19b: `if a: t = E1 else: t = E2`  ->  `t = E1 if a else E2`
            if isinstance(s, ast.If) and len(s.body) == 1 and len(s.orelse) == 1 and all(isinstance(x_, ast.Assign) and len(x_.targets) == 1 and isinstance(x_.targets[0], ast.Name) for x_ in (s.body[0], s.orelse[0])) and s.body[0].targets[0].id == s.orelse[0].targets[0].id:
                out[i] = ast.copy_location(ast.Assign(targets=[s.body[0].targets[0]], value=ast.IfExp(test=s.test, body=s.body[0].value, orelse=s.orelse[0].value)), s)
                ast.fix_missing_locations(out[i])
                self.changed = True
                continue
            # D19c: `if a: return E1` `return E2` (end of the block)  ->  `return E1 if a else E2`
            if isinstance(s, ast.If) and not s.orelse and len(s.body) == 1 and isinstance(s.body[0], ast.Return) and s.body[0].value is not None and i + 2 == len(out) and isinstance(out[i + 1], ast.Return) and out[i + 1].value is not None:
                out[i] = ast.copy_location(ast.Return(value=ast.IfExp(test=s.test, body=s.body[0].value, orelse=out[i + 1].value)), s)
                ast.fix_missing_locations(out[i])
                del out[i + 1]
                self.changed = True
                continue
            # D16: `D.setdefault(K, <fresh empty container>).m(..)`  ->  `k = K` `if k not in D: D[k] = <..>` `D[k].m(..)`
            if isinstance(s, ast.Expr) and isinstance(s.value, ast.Call) and isinstance(s.value.func, ast.Attribute) and isinstance(s.value.func.value, ast.Call):
                sd = s.value.func.value
                if isinstance(sd.func, ast.Attribute) and sd.func.attr == "setdefault" and isinstance(sd.func.value, ast.Name) and len(sd.args) == 2 and not sd.keywords and _fresh_empty(sd.args[1]):
                    dname = sd.func.value.id
                    key = sd.args[0]
                    pre_ = []
                    if not (isinstance(key, (ast.Name, ast.Constant))):
                        _sd_counter[0] += 1
                        tmp = f"_sd{_sd_counter[0]}"
                        pre_ = [ast.Assign(targets=[ast.Name(id=tmp, ctx=ast.Store())], value=key)]
                        key = ast.Name(id=tmp, ctx=ast.Load())
                    if not (isinstance(key, ast.Name) and key.id == dname):
                        sub = lambda ctx: ast.Subscript(value=ast.Name(id=dname, ctx=ast.Load()), slice=copy.deepcopy(key), ctx=ctx)  # noqa: E731
                        guard = ast.If(test=ast.Compare(left=copy.deepcopy(key), ops=[ast.NotIn()], comparators=[ast.Name(id=dname, ctx=ast.Load())]), body=[ast.Assign(targets=[sub(ast.Store())], value=sd.args[1])], orelse=[])
                        use = ast.Expr(value=ast.Call(func=ast.Attribute(value=sub(ast.Load()), attr=s.value.func.attr, ctx=ast.Load()), args=s.value.args, keywords=s.value.keywords))
                        new = [ast.copy_location(x_, s) for x_ in pre_ + [guard, use]]
                        for x_ in new:
                            ast.fix_missing_locations(x_)
                        out[i:i + 1] = new
                        self.changed = True
                        continue
            # D13-D15: pair iteration written through the key / index
            if isinstance(s, ast.For) and not s.orelse and isinstance(s.target, ast.Tuple) and len(s.target.elts) == 2 and all(isinstance(e_, ast.Name) for e_ in s.target.elts) and _pair_view(s.iter) is not None and self.root is not None:
                kind, cont = _pair_view(s.iter)
                kname, vname = s.target.elts[0].id, s.target.elts[1].id
                loads_of = lambda nm, where: sum(1 for r_ in where for x_ in ast.walk(r_) if isinstance(x_, ast.Name) and x_.id == nm and isinstance(x_.ctx, ast.Load))  # noqa: E731
                # D14: the index of `enumerate` is never looked at
                if kind == "enum" and loads_of(kname, [self.root]) == 0 and kname != vname and not _binds(s.body, {kname}):
                    s.target = s.target.elts[1]
                    s.iter = s.iter.args[0]
                    self.changed = True
                    continue
                cnames = {x_.id for x_ in ast.walk(cont) if isinstance(x_, ast.Name)}
                if kname != vname and not ({kname, vname} & cnames) and _only_read(s.body, cont) and not _binds(s.body, {kname, vname} | cnames) and not _mentions_in_closure(s.body, {kname, vname}) and loads_of(vname, [self.root]) == loads_of(vname, s.body):
                    repl = _NameRepl(vname, _element_of(kind, cont, kname))
                    s.body = [repl.visit(x_) for x_ in s.body]
                    s.target = s.target.elts[0]
                    s.iter = ast.copy_location(_index_iter(kind, cont), s.iter)
                    ast.fix_missing_locations(s)
                    self.changed = True
                    continue
            # D7
            if isinstance(s, ast.Assign) and len(s.targets) == 1 and isinstance(s.targets[0], ast.Tuple) and isinstance(s.value, ast.Tuple) and len(s.targets[0].elts) == len(s.value.elts) and all(isinstance(t_, ast.Name) for t_ in s.targets[0].elts):
                tn = {t_.id for t_ in s.targets[0].elts}
                if len(tn) == len(s.targets[0].elts) and not any(isinstance(x, ast.Name) and x.id in tn for v_ in s.value.elts for x in ast.walk(v_)):
                    parts = [ast.copy_location(ast.Assign(targets=[t_], value=v_), s) for t_, v_ in zip(s.targets[0].elts, s.value.elts)]
                    out[i:i + 1] = parts
                    self.changed = True
                    continue
            i += 1
        return out

    def visit_Compare(self, node):
        # D21: `a <= b < c` with side-effect-free middle operands  ->  `a <= b and b < c`
        node = self.generic_visit(node)
        if isinstance(node, ast.Compare) and len(node.ops) > 1 and all(_call_free(c) for c in node.comparators[:-1]):
            parts = []
            left = node.left
            for op, right in zip(node.ops, node.comparators):
                parts.append(ast.Compare(left=copy.deepcopy(left), ops=[op], comparators=[copy.deepcopy(right)]))
                left = right
            self.changed = True
            return ast.copy_location(ast.BoolOp(op=ast.And(), values=parts), node)
        return node

    def _canon_conditions(self, node):
        if isinstance(node, (ast.If, ast.While, ast.IfExp)):
            before = ast.dump(node.test)
            node.test = _canon_test(node.test)
            if ast.dump(node.test) != before:
                self.changed = True
        if isinstance(node, ast.comprehension) and node.ifs:
            before = [ast.dump(x) for x in node.ifs]
            node.ifs = [_canon_test(x) for x in node.ifs]
            if [ast.dump(x) for x in node.ifs] != before:
                self.changed = True
        if isinstance(node, ast.IfExp) and _is_negative(node.test):
            node.test, node.body, node.orelse = _negate(node.test), node.orelse, node.body
            self.changed = True
        # D20: bounds of range() are integers: integer-linear normal form
        if isinstance(node, ast.Call) and isinstance(node.func, ast.Name) and node.func.id == "range" and not node.keywords:
            before = [ast.dump(a) for a in node.args]
            node.args = [_linear_canon(a) for a in node.args]
            if [ast.dump(a) for a in node.args] != before:
                ast.fix_missing_locations(node)
                self.changed = True
        # D13 in comprehensions: `for k, v in D.items()` / `for i, v in enumerate(X)`  ->  through the key / index
        if isinstance(node, _COMPS):
            for gi, g in enumerate(node.generators):
                if not (isinstance(g.target, ast.Tuple) and len(g.target.elts) == 2 and all(isinstance(e_, ast.Name) for e_ in g.target.elts) and _pair_view(g.iter) is not None):
                    continue
                kind, cont = _pair_view(g.iter)
                kname, vname = g.target.elts[0].id, g.target.elts[1].id
                scope = list(g.ifs) + [x for g2 in node.generators[gi + 1:] for x in [g2.iter] + list(g2.ifs)] + ([node.key, node.value] if isinstance(node, ast.DictComp) else [node.elt])
                later_targets = [g2.target for g2 in node.generators[gi + 1:]]
                cnames = {x_.id for x_ in ast.walk(cont) if isinstance(x_, ast.Name)}
                if kname == vname or ({kname, vname} & cnames) or not _only_read(scope, cont) or _binds(scope + later_targets, {kname, vname} | cnames) or _mentions_in_closure(scope, {kname, vname}):
                    continue
                if kind == "enum" and not any(isinstance(x_, ast.Name) and x_.id == kname for r_ in scope for x_ in ast.walk(r_)):
                    g.target = g.target.elts[1]
                    g.iter = g.iter.args[0]
                    self.changed = True
                    continue
                repl = _NameRepl(vname, _element_of(kind, cont, kname))
                g.ifs = [repl.visit(x_) for x_ in g.ifs]
                for g2 in node.generators[gi + 1:]:
                    g2.iter = repl.visit(g2.iter)
                    g2.ifs = [repl.visit(x_) for x_ in g2.ifs]
                if isinstance(node, ast.DictComp):
                    node.key, node.value = repl.visit(node.key), repl.visit(node.value)
                else:
                    node.elt = repl.visit(node.elt)
                g.target = g.target.elts[0]
                g.iter = ast.copy_location(_index_iter(kind, cont), g.iter)
                ast.fix_missing_locations(node)
                self.changed = True

    def generic_visit(self, node):
        node = super().generic_visit(node)
        self._canon_conditions(node)
        for fld in ("body", "orelse", "finalbody"):
            b = getattr(node, fld, None)
            if isinstance(b, list) and b and isinstance(b[0], ast.stmt):
                in_loop = isinstance(node, (ast.For, ast.While)) and fld == "body"
                nb = self._block(b, in_loop)
                setattr(node, fld, nb or [ast.Pass()])
        return node


def deep_digest(fn: ast.AST) -> str:
    nf = normal_form(fn)[0]
    for _ in range(6):
        d = _Deep(nf)
        nf = d.visit(nf)
        ast.fix_missing_locations(nf)
        k = 0
        try:
            k = _inline_new_aliases(nf, [])
        except Exception:  # noqa: BLE001
            k = 0
        if not d.changed and not k:
            break
    _renumber_comprehension_vars(nf)
    return _alpha(nf)[0]


def _renumber_comprehension_vars(fn: ast.AST) -> None:
    """positional names for every comprehension variable, whatever it is called now (comprehensions created by D4/D5
    come after the N-form numbering and would otherwise shift it)"""
    params = {a.arg for x in ast.walk(fn) if isinstance(x, ast.arguments) for a in x.posonlyargs + x.args + x.kwonlyargs}
    k = 0
    stack = [fn]
    while stack:
        node = stack.pop()
        if isinstance(node, _COMPS):
            for gen in node.generators:
                for t in [x for x in ast.walk(gen.target) if isinstance(x, ast.Name)]:
                    old = t.id
                    if old in params or old.startswith("_d") and old[2:].isdigit():
                        continue
                    if any(isinstance(x, ast.Name) and x.id == old for x in ast.walk(node.generators[0].iter)):
                        continue
                    new = f"_d{k}"
                    k += 1
                    for x in ast.walk(node):
                        if isinstance(x, ast.Name) and x.id == old:
                            x.id = new
        stack.extend(reversed(list(ast.iter_child_nodes(node))))


def derename(rel: str, tree: ast.Module) -> list[str]:
    """Rewrite units that equal their baseline up to surface edits into the baseline's surface form, in place.
    Returns the list of units rewritten."""
    base = baseline()
    done = []
    for q, fn in units(tree):
        b = base.get(f"{rel}::{q}")
        if not b:
            continue
        if b.get("raw") == _raw(fn):
            continue  # textually the baseline function: nothing to do (the common case, kept cheap)
        nf, dig, order, variants = normal_form(fn)
        if dig != b["skeleton"] or len(order) != len(b["names"]) or len(variants) != len(b.get("variants", [])):
            # a behaviour-preserving rewrite of the baseline unit (deep normal forms agree): analyse the baseline's text
            if b.get("deep") and b.get("src"):
                try:
                    same = deep_digest(fn) == b["deep"]
                except Exception:  # noqa: BLE001
                    same = False
                if same:
                    base_fn = ast.parse(b["src"]).body[0]
                    if isinstance(base_fn, ast.ClassDef):
                        base_fn = base_fn.body[0]
                    off = fn.lineno - base_fn.lineno
                    for x in ast.walk(base_fn):
                        if hasattr(x, "lineno") and x.lineno is not None:
                            x.lineno += off
                            if getattr(x, "end_lineno", None) is not None:
                                x.end_lineno += off
                    doc = [fn.body[0]] if fn.body and isinstance(fn.body[0], ast.Expr) and isinstance(fn.body[0].value, ast.Constant) and isinstance(fn.body[0].value.value, str) and len(fn.body) > 1 else []
                    bdoc = 1 if base_fn.body and isinstance(base_fn.body[0], ast.Expr) and isinstance(base_fn.body[0].value, ast.Constant) and isinstance(base_fn.body[0].value.value, str) and len(base_fn.body) > 1 else 0
                    fn.body = doc + base_fn.body[bdoc:]
                    for old_a, new_a in zip(_all_args(fn.args), _all_args(base_fn.args)):
                        old_a.arg = new_a.arg
                    done.append(q + " (deep)")
                    continue
            # not the baseline unit up to surface edits: restore what can be restored, the names of its locals
            if b.get("stmts"):
                mp = _infer_renames(fn, b["stmts"])
                if mp:
                    _apply_renames(fn, mp)
                    done.append(q + " (locals)")
                try:
                    if _inline_new_aliases(fn, b["names"]):
                        done.append(q + " (aliases)")
                except Exception:  # noqa: BLE001 - an optional normalisation must never stop the load
                    pass
            continue
        if order == b["names"] and variants == b["variants"] and nf._comp_names == b.get("comp_names", nf._comp_names):
            continue
        # 1. surface variants of the baseline
        nodes = _variant_nodes(nf)
        want = {id(n): v for n, v in zip(nodes, b["variants"])}
        mapping = dict(zip(order, b["names"]))
        nf = _Restorer(want).visit(nf)
        # temporaries re-introduced by N5 carry baseline names already; everything else is renamed
        temps = {v for v in b["variants"] if isinstance(v, str)}
        locals_ = set(order)
        for n, attr in list(_occurrences(nf, locals_ | temps)):
            if attr == "names":
                n.names = [mapping.get(x, x) for x in n.names]
            else:
                cur = getattr(n, attr)
                if cur in temps and cur not in mapping:
                    continue
                setattr(n, attr, mapping.get(cur, cur))
        _restore_comp_names(nf, b.get("comp_names"))
        ast.fix_missing_locations(nf)
        # keep the function's own docstring, annotations and decorators; take body and parameter names of the restored form
        doc = [fn.body[0]] if fn.body and isinstance(fn.body[0], ast.Expr) and isinstance(fn.body[0].value, ast.Constant) and isinstance(fn.body[0].value.value, str) and len(fn.body) > 1 else []
        fn.body = doc + nf.body
        for old_a, new_a in zip(_all_args(fn.args), _all_args(nf.args)):
            old_a.arg = new_a.arg
        done.append(q)
    for q, i, stmt in list(module_units(tree)):
        b = base.get(f"{rel}::{q}")
        if not b:
            continue
        if b.get("raw") == _raw(stmt):
            continue
        nf, dig, order, variants = normal_form(_wrap(stmt))
        if dig != b["skeleton"] or len(order) != len(b["names"]) or len(variants) != len(b.get("variants", [])):
            continue
        if order == b["names"] and variants == b["variants"] and nf._comp_names == b.get("comp_names", nf._comp_names):
            continue
        # the assigned name itself is not a local of the pseudo unit's caller: keep it
        nodes = _variant_nodes(nf)
        nf = _Restorer({id(n): v for n, v in zip(nodes, b["variants"])}).visit(nf)
        mapping = dict(zip(order, b["names"]))
        for n, attr in list(_occurrences(nf, set(order))):
            if attr != "names":
                setattr(n, attr, mapping.get(getattr(n, attr), getattr(n, attr)))
        _restore_comp_names(nf, b.get("comp_names"))
        ast.fix_missing_locations(nf)
        if len(nf.body) == 1:
            tree.body[i] = nf.body[0]
            done.append(q)
    return done


def _unit_source(fn: ast.AST) -> str:
    import copy as _c

    f = _c.deepcopy(fn)
    f.decorator_list = []
    return str(ast.unparse(f))


def build_baseline(root: str, package: str = "solvor") -> dict:
    out = {}
    pkg = os.path.join(root, package)
    for d, dirs, files in os.walk(pkg):
        dirs[:] = sorted(x for x in dirs if x != "__pycache__")
        for f in sorted(files):
            if not f.endswith(".py"):
                continue
            p = os.path.join(d, f)
            rel = os.path.relpath(p, root)
            with open(p, encoding="utf-8") as fh:
                tree = ast.parse(fh.read())
            for q, fn in units(tree):
                nf_, dig, order, variants = normal_form(fn)
                out[f"{rel}::{q}"] = {"skeleton": dig, "names": order, "variants": variants, "raw": _raw(fn), "comp_names": nf_._comp_names, "closures": sorted(x.name for x in fn.body if isinstance(x, (ast.FunctionDef, ast.AsyncFunctionDef))), "stmts": [[d_, n_] for d_, n_ in _stmt_fingerprints(fn)], "deep": deep_digest(fn), "src": _unit_source(fn)}
            for q, _i, stmt in module_units(tree):
                nf_, dig, order, variants = normal_form(_wrap(stmt))
                out[f"{rel}::{q}"] = {"skeleton": dig, "names": order, "variants": variants, "raw": _raw(stmt), "comp_names": nf_._comp_names}
    return out
