"""Surface tolerance: analyse a function that differs from the recorded baseline only by behaviour-preserving
surface edits in the baseline's own surface form.

The per-property checks locate many constructs through local variable names and statement shapes (`best_obj`,
`total_weight += w`, `if residual > 0`).  A refactor that only renames locals, flips a comparison, expands an
augmented assignment of a scalar, inverts an if/else, moves a numeric constant to the other side of `+`/`*` or routes
a returned call through a temporary leaves behaviour unchanged, so it must not produce a report.

For every top-level function / method (with its nested closures) `anchors/locals.json` records
  * the digest of its *normal form*: the AST after the normalising rewrites N1-N5 below, with every unit-local name
    replaced by the index of its first occurrence (alpha skeleton),
  * the ordered list of local names of the baseline, and
  * for every normalisable node of the normal form (in pre-order) which surface variant the baseline uses.
When the function in the working tree has the same normal-form digest it is the baseline function up to those
edits; its in-memory AST is rewritten into the baseline's surface variant and names (line numbers are kept) and
analysed as usual.  Any other edit leaves the function exactly as written.  The file holds digests, names and
variant flags - no source; nothing here decides a property.

Normalising rewrites (each semantics-preserving under the stated side condition):
  N1  x = x <op> e          ->  x <op>= e        x a plain local used as a scalar only (never subscripted, iterated,
                                                 passed to len, tested with `in`, or used through an attribute): for such
                                                 a name in-place and rebinding updates cannot be told apart
  N2  a > b  /  a >= b      ->  b < a / b <= a   single comparison, no call / walrus inside (evaluation order irrelevant)
      K == x / K != x       ->  x == K / x != K  K a constant
  N3  if not c: A else: B   ->  if c: B else: A
  N4  K + e  /  K * e       ->  e + K / e * K    K a numeric constant (IEEE + and * commute exactly)
  N5  t = <call>; return t  ->  return <call>    t occurs nowhere else in the unit
  N0  docstrings and annotations are left out of the normal form (the analysed function keeps its own)
"""

from __future__ import annotations

import ast
import copy
import hashlib
import json
import os

HERE = os.path.dirname(os.path.dirname(os.path.abspath(__file__)))
ANCHORS = os.path.join(HERE, "anchors", "locals.json")

_FLIP = {ast.Gt: ast.Lt, ast.GtE: ast.LtE}
_UNFLIP = {ast.Lt: ast.Gt, ast.LtE: ast.GtE, ast.Eq: ast.Eq, ast.NotEq: ast.NotEq}


# ---------------------------------------------------------------------------------------------------------------
# alpha skeleton (unchanged from the rename-only version)
# ---------------------------------------------------------------------------------------------------------------
def _unit_locals(fn: ast.AST) -> set[str]:
    """names bound somewhere inside the unit (function + nested closures), except the unit's own parameters"""
    own_params = {a.arg for a in (fn.args.posonlyargs + fn.args.args + fn.args.kwonlyargs)}
    if fn.args.vararg:
        own_params.add(fn.args.vararg.arg)
    if fn.args.kwarg:
        own_params.add(fn.args.kwarg.arg)
    bound: set[str] = set()
    declared_global: set[str] = set()
    for n in ast.walk(fn):
        if isinstance(n, ast.Name) and isinstance(n.ctx, (ast.Store, ast.Del)):
            bound.add(n.id)
        elif isinstance(n, (ast.FunctionDef, ast.AsyncFunctionDef, ast.ClassDef)) and n is not fn:
            bound.add(n.name)
            if isinstance(n, (ast.FunctionDef, ast.AsyncFunctionDef)):
                for a in n.args.posonlyargs + n.args.args + n.args.kwonlyargs:
                    bound.add(a.arg)
                if n.args.vararg:
                    bound.add(n.args.vararg.arg)
                if n.args.kwarg:
                    bound.add(n.args.kwarg.arg)
        elif isinstance(n, ast.Lambda):
            for a in n.args.posonlyargs + n.args.args + n.args.kwonlyargs:
                bound.add(a.arg)
        elif isinstance(n, ast.ExceptHandler) and n.name:
            bound.add(n.name)
        elif isinstance(n, ast.Global):
            declared_global |= set(n.names)
        elif isinstance(n, ast.alias):
            bound.add((n.asname or n.name).split(".")[0])
    return bound - own_params - declared_global


def _occurrences(fn: ast.AST, locals_: set[str]):
    """yield (node, attribute) for every occurrence of a unit-local name, in deterministic order"""
    stack = [fn]
    while stack:
        n = stack.pop()
        if isinstance(n, ast.Name) and n.id in locals_:
            yield n, "id"
        elif isinstance(n, ast.arg) and n.arg in locals_:
            yield n, "arg"
        elif isinstance(n, (ast.FunctionDef, ast.AsyncFunctionDef, ast.ClassDef)) and n is not fn and n.name in locals_:
            yield n, "name"
        elif isinstance(n, ast.ExceptHandler) and n.name in locals_:
            yield n, "name"
        elif isinstance(n, ast.Nonlocal):
            yield n, "names"
        stack.extend(reversed(list(ast.iter_child_nodes(n))))


def _alpha(fn: ast.AST):
    """(digest, ordered local names) of the tree as it is.  The tree is restored before returning."""
    locals_ = _unit_locals(fn)
    order: list[str] = []
    index: dict[str, int] = {}
    saved = []
    for n, attr in _occurrences(fn, locals_):
        if attr == "names":
            for x in n.names:
                if x in locals_ and x not in index:
                    index[x] = len(order)
                    order.append(x)
            saved.append((n, attr, list(n.names)))
            n.names = [f"\x00{index[x]}" if x in index else x for x in n.names]
            continue
        v = getattr(n, attr)
        if v not in index:
            index[v] = len(order)
            order.append(v)
        saved.append((n, attr, v))
        setattr(n, attr, f"\x00{index[v]}")
    try:
        dump = ast.dump(fn, annotate_fields=False, include_attributes=False)
    finally:
        for n, attr, v in saved:
            setattr(n, attr, v)
    return hashlib.sha1(dump.encode()).hexdigest(), order


# ---------------------------------------------------------------------------------------------------------------
# normal form
# ---------------------------------------------------------------------------------------------------------------
def _scalar_names(fn: ast.AST) -> set[str]:
    """locals never used in a way that suggests a container or object"""
    names = _unit_locals(fn) | {a.arg for a in ast.walk(fn) if isinstance(a, ast.arg)}
    bad: set[str] = set()
    for n in ast.walk(fn):
        if isinstance(n, (ast.Subscript, ast.Attribute, ast.Starred)) and isinstance(n.value, ast.Name):
            bad.add(n.value.id)
        elif isinstance(n, (ast.For, ast.comprehension)) and isinstance(n.iter, ast.Name):
            bad.add(n.iter.id)
        elif isinstance(n, ast.Call) and isinstance(n.func, ast.Name) and n.func.id in ("len", "list", "set", "tuple", "sorted", "sum", "min", "max", "iter", "enumerate", "zip", "any", "all", "dict"):
            if n.func.id in ("min", "max") and len(n.args) > 1:
                continue  # min(a, b) of scalars
            for a in n.args:
                if isinstance(a, ast.Name):
                    bad.add(a.id)
        elif isinstance(n, ast.Compare) and any(isinstance(o, (ast.In, ast.NotIn)) for o in n.ops):
            for c in n.comparators:
                if isinstance(c, ast.Name):
                    bad.add(c.id)
        elif isinstance(n, (ast.Assign, ast.AnnAssign)) and isinstance(getattr(n, "value", None), (ast.List, ast.ListComp, ast.Dict, ast.DictComp, ast.Set, ast.SetComp, ast.Tuple, ast.JoinedStr)):
            for t in n.targets if isinstance(n, ast.Assign) else [n.target]:
                if isinstance(t, ast.Name):
                    bad.add(t.id)
    return names - bad


def _no_eval_order(e: ast.AST) -> bool:
    return not any(isinstance(x, (ast.Call, ast.NamedExpr, ast.Await, ast.Yield, ast.YieldFrom)) for x in ast.walk(e))


def _num_const(e: ast.AST) -> bool:
    return isinstance(e, ast.Constant) and isinstance(e.value, (int, float)) and not isinstance(e.value, bool)


def _count_name(fn: ast.AST, name: str) -> int:
    return sum(1 for x in ast.walk(fn) if (isinstance(x, ast.Name) and x.id == name) or (isinstance(x, ast.Nonlocal) and name in x.names))


class _Normaliser(ast.NodeTransformer):
    """Rewrites to normal form; every node that has a surface variant gets `_v` (0 = already normal, 1 = the other
    variant; for N5 the name of the temporary)."""

    def __init__(self, fn: ast.AST):
        self.fn = fn
        self.scalars = _scalar_names(fn)
        # N5: names used for nothing but `t = <call>; return t` pairs
        pairs: dict[str, int] = {}
        for n in ast.walk(fn):
            for fld in ("body", "orelse", "finalbody"):
                b = getattr(n, fld, None)
                if isinstance(b, list):
                    for s, nxt in zip(b, b[1:]):
                        if self._is_temp_pair(s, nxt):
                            pairs[s.targets[0].id] = pairs.get(s.targets[0].id, 0) + 1
        self.temps = {t for t, k in pairs.items() if _count_name(fn, t) == 2 * k}

    @staticmethod
    def _is_temp_pair(s, nxt) -> bool:
        return isinstance(s, ast.Assign) and len(s.targets) == 1 and isinstance(s.targets[0], ast.Name) and isinstance(s.value, ast.Call) and isinstance(nxt, ast.Return) and isinstance(nxt.value, ast.Name) and nxt.value.id == s.targets[0].id

    # N5 works on statement lists
    def _merge_temp_returns(self, body: list) -> list:
        out = []
        i = 0
        while i < len(body):
            s = body[i]
            nxt = body[i + 1] if i + 1 < len(body) else None
            if nxt is not None and self._is_temp_pair(s, nxt) and s.targets[0].id in self.temps:
                r = ast.copy_location(ast.Return(value=s.value), s)
                r._v = s.targets[0].id
                out.append(r)
                i += 2
                continue
            if isinstance(s, ast.Return) and isinstance(s.value, ast.Call) and not hasattr(s, "_v"):
                s._v = 0
            out.append(s)
            i += 1
        return out

    def generic_visit(self, node):
        node = super().generic_visit(node)
        for fld in ("body", "orelse", "finalbody"):
            b = getattr(node, fld, None)
            if isinstance(b, list) and b and isinstance(b[0], ast.stmt):
                setattr(node, fld, self._merge_temp_returns(b))
        return node

    def visit_AnnAssign(self, n):
        n = self.generic_visit(n)
        if n.value is not None and isinstance(n.target, ast.Name) and n.simple:
            a = ast.copy_location(ast.Assign(targets=[n.target], value=n.value), n)
            a._v = ["ann", ast.unparse(n.annotation)]
            return self._after_assign(a)
        n.annotation = ast.Constant(value=None)  # attribute / subscript target, or no value: the annotation is dropped
        return n

    def _after_assign(self, n):
        """N1 on a plain assignment; an annotated one keeps its annotation variant"""
        if isinstance(n.value, ast.BinOp) and isinstance(n.value.left, ast.Name) and n.value.left.id == n.targets[0].id and n.targets[0].id in self.scalars and self._scalar_operand(n.value.right) and not isinstance(getattr(n, "_v", 0), list):
            a = ast.copy_location(ast.AugAssign(target=n.targets[0], op=n.value.op, value=n.value.right), n)
            a._v = 1
            return a
        return n

    def visit_Assign(self, n):
        n = self.generic_visit(n)
        if len(n.targets) == 1 and isinstance(n.targets[0], ast.Name) and not (isinstance(n.value, ast.BinOp) and isinstance(n.value.left, ast.Name) and n.value.left.id == n.targets[0].id):
            n._v = 0  # could carry an annotation
            return n
        if len(n.targets) == 1 and isinstance(n.targets[0], ast.Name) and isinstance(n.value, ast.BinOp) and isinstance(n.value.left, ast.Name) and n.value.left.id == n.targets[0].id and n.targets[0].id in self.scalars and self._scalar_operand(n.value.right):
            a = ast.copy_location(ast.AugAssign(target=n.targets[0], op=n.value.op, value=n.value.right), n)
            a._v = 1
            return a
        return n

    @staticmethod
    def _scalar_operand(e: ast.AST) -> bool:
        """the other operand does not look like a sequence either (x += [..] extends in place, x = x + [..] rebinds)"""
        if isinstance(e, (ast.List, ast.Tuple, ast.ListComp, ast.Set, ast.SetComp, ast.Dict, ast.DictComp, ast.JoinedStr, ast.GeneratorExp)):
            return False
        if isinstance(e, ast.Constant) and isinstance(e.value, (str, bytes)):
            return False
        if isinstance(e, ast.Call) and isinstance(e.func, ast.Name) and e.func.id in ("list", "tuple", "sorted", "set", "dict", "str"):
            return False
        return True

    def visit_AugAssign(self, n):
        n = self.generic_visit(n)
        if isinstance(n.target, ast.Name) and n.target.id in self.scalars and self._scalar_operand(n.value):
            n._v = 0
        return n

    def visit_Compare(self, n):
        n = self.generic_visit(n)
        if len(n.ops) != 1 or not _no_eval_order(n):
            return n
        op = type(n.ops[0])
        l, r = n.left, n.comparators[0]
        if op in _FLIP:
            m = ast.copy_location(ast.Compare(left=r, ops=[_FLIP[op]()], comparators=[l]), n)
            m._v = 1
            return m
        if op in (ast.Lt, ast.LtE):
            n._v = 0
        elif op in (ast.Eq, ast.NotEq):
            if isinstance(l, ast.Constant) and not isinstance(r, ast.Constant):
                m = ast.copy_location(ast.Compare(left=r, ops=[op()], comparators=[l]), n)
                m._v = 1
                return m
            if isinstance(r, ast.Constant) and not isinstance(l, ast.Constant):
                n._v = 0
        return n

    def visit_If(self, n):
        n = self.generic_visit(n)
        if n.orelse:
            if isinstance(n.test, ast.UnaryOp) and isinstance(n.test.op, ast.Not):
                m = ast.copy_location(ast.If(test=n.test.operand, body=n.orelse, orelse=n.body), n)
                m._v = 1
                return m
            n._v = 0
        return n

    def visit_BinOp(self, n):
        n = self.generic_visit(n)
        if isinstance(n.op, (ast.Add, ast.Mult)):
            if _num_const(n.left) and not isinstance(n.right, ast.Constant):
                m = ast.copy_location(ast.BinOp(left=n.right, op=n.op, right=n.left), n)
                m._v = 1
                return m
            if _num_const(n.right) and not isinstance(n.left, ast.Constant):
                n._v = 0
        return n


def _variant_nodes(nf: ast.AST) -> list:
    """nodes of the normal form that have a surface variant, in pre-order"""
    out = []
    stack = [nf]
    while stack:
        n = stack.pop()
        if hasattr(n, "_v"):
            out.append(n)
        stack.extend(reversed(list(ast.iter_child_nodes(n))))
    return out


def normal_form(fn: ast.AST):
    """(normal-form tree (a rewritten deep copy), digest, local names, variants)"""
    nf = copy.deepcopy(fn)
    for x in ast.walk(nf):
        if hasattr(x, "_v"):
            del x._v
    # N0: docstrings and annotations carry no behaviour: they are not part of the normal form
    for x in ast.walk(nf):
        if isinstance(x, (ast.FunctionDef, ast.AsyncFunctionDef)):
            if x.body and isinstance(x.body[0], ast.Expr) and isinstance(x.body[0].value, ast.Constant) and isinstance(x.body[0].value.value, str) and len(x.body) > 1:
                x.body = x.body[1:]
            x.returns = None
        elif isinstance(x, ast.arg):
            x.annotation = None

    nz = _Normaliser(nf)
    nf = nz.visit(nf)
    ast.fix_missing_locations(nf)
    dig, order = _alpha(nf)
    variants = [n._v for n in _variant_nodes(nf)]
    return nf, dig, order, variants


class _Restorer(ast.NodeTransformer):
    """turns variant nodes of a normal form into the surface variant the baseline uses"""

    def __init__(self, want: dict):
        self.want = want  # id(node) -> variant

    def _blocks(self, node):
        for fld in ("body", "orelse", "finalbody"):
            b = getattr(node, fld, None)
            if isinstance(b, list) and b and isinstance(b[0], ast.stmt):
                nb = []
                for s in b:
                    if isinstance(s, list):
                        nb.extend(s)
                    else:
                        nb.append(s)
                setattr(node, fld, nb)
        return node

    def generic_visit(self, node):
        node = super().generic_visit(node)
        return self._blocks(node)

    def visit_Return(self, n):
        v = self.want.get(id(n), 0)
        n = self.generic_visit(n)
        if isinstance(v, str):
            a = ast.copy_location(ast.Assign(targets=[ast.Name(id=v, ctx=ast.Store())], value=n.value), n)
            r = ast.copy_location(ast.Return(value=ast.Name(id=v, ctx=ast.Load())), n)
            return [a, r]
        return n

    def visit_Assign(self, n):
        v = self.want.get(id(n), 0)
        n = self.generic_visit(n)
        if isinstance(v, list) and v and v[0] == "ann" and len(n.targets) == 1 and isinstance(n.targets[0], ast.Name):
            return ast.copy_location(ast.AnnAssign(target=n.targets[0], annotation=ast.parse(v[1], mode="eval").body, value=n.value, simple=1), n)
        return n

    def visit_AugAssign(self, n):
        v = self.want.get(id(n), 0)
        n = self.generic_visit(n)
        if v == 1:
            return ast.copy_location(ast.Assign(targets=[ast.Name(id=n.target.id, ctx=ast.Store())], value=ast.BinOp(left=ast.Name(id=n.target.id, ctx=ast.Load()), op=n.op, right=n.value)), n)
        return n

    def visit_Compare(self, n):
        v = self.want.get(id(n), 0)
        n = self.generic_visit(n)
        if v == 1:
            return ast.copy_location(ast.Compare(left=n.comparators[0], ops=[_UNFLIP[type(n.ops[0])]()], comparators=[n.left]), n)
        return n

    def visit_If(self, n):
        v = self.want.get(id(n), 0)
        n = self.generic_visit(n)
        if v == 1:
            return ast.copy_location(ast.If(test=ast.UnaryOp(op=ast.Not(), operand=n.test), body=n.orelse, orelse=n.body), n)
        return n

    def visit_BinOp(self, n):
        v = self.want.get(id(n), 0)
        n = self.generic_visit(n)
        if v == 1:
            return ast.copy_location(ast.BinOp(left=n.right, op=n.op, right=n.left), n)
        return n


def _raw(node: ast.AST) -> str:
    return hashlib.sha1(ast.dump(node, annotate_fields=False, include_attributes=False).encode()).hexdigest()


def _all_args(a: ast.arguments) -> list:
    return a.posonlyargs + a.args + ([a.vararg] if a.vararg else []) + a.kwonlyargs + ([a.kwarg] if a.kwarg else [])


def skeleton(fn: ast.AST):
    """(digest, ordered local names) of the normal form.  The tree is not modified."""
    _, dig, order, _ = normal_form(fn)
    return dig, order


def _wrap(stmt: ast.stmt) -> ast.FunctionDef:
    """a module-level assignment as a pseudo unit, so that constants such as move tables get the same tolerance"""
    f = ast.FunctionDef(name="<module>", args=ast.arguments(posonlyargs=[], args=[], kwonlyargs=[], kw_defaults=[], defaults=[]), body=[stmt], decorator_list=[], returns=None, type_params=[])
    return ast.copy_location(f, stmt)


def module_units(tree: ast.Module):
    """(key, index in tree.body, statement) for every module-level assignment to a plain name"""
    for i, n in enumerate(tree.body):
        if isinstance(n, ast.Assign) and len(n.targets) == 1 and isinstance(n.targets[0], ast.Name):
            yield f"<module>.{n.targets[0].id}", i, n
        elif isinstance(n, ast.AnnAssign) and isinstance(n.target, ast.Name) and n.value is not None:
            yield f"<module>.{n.target.id}", i, n


def units(tree: ast.Module):
    """(qualified name, node) of every top-level function and every method of a top-level class"""
    for n in tree.body:
        if isinstance(n, (ast.FunctionDef, ast.AsyncFunctionDef)):
            yield n.name, n
        elif isinstance(n, ast.ClassDef):
            for m in n.body:
                if isinstance(m, (ast.FunctionDef, ast.AsyncFunctionDef)):
                    yield f"{n.name}.{m.name}", m


_BASELINE = None


def baseline() -> dict:
    global _BASELINE
    if _BASELINE is None:
        if os.path.exists(ANCHORS):
            with open(ANCHORS, encoding="utf-8") as fh:
                _BASELINE = json.load(fh)
        else:
            _BASELINE = {}
    return _BASELINE


def derename(rel: str, tree: ast.Module) -> list[str]:
    """Rewrite units that equal their baseline up to surface edits into the baseline's surface form, in place.
    Returns the list of units rewritten."""
    base = baseline()
    done = []
    for q, fn in units(tree):
        b = base.get(f"{rel}::{q}")
        if not b:
            continue
        if b.get("raw") == _raw(fn):
            continue  # textually the baseline function: nothing to do (the common case, kept cheap)
        nf, dig, order, variants = normal_form(fn)
        if dig != b["skeleton"] or len(order) != len(b["names"]) or len(variants) != len(b.get("variants", [])):
            continue
        if order == b["names"] and variants == b["variants"]:
            continue
        # 1. surface variants of the baseline
        nodes = _variant_nodes(nf)
        want = {id(n): v for n, v in zip(nodes, b["variants"])}
        mapping = dict(zip(order, b["names"]))
        nf = _Restorer(want).visit(nf)
        # temporaries re-introduced by N5 carry baseline names already; everything else is renamed
        temps = {v for v in b["variants"] if isinstance(v, str)}
        locals_ = set(order)
        for n, attr in list(_occurrences(nf, locals_ | temps)):
            if attr == "names":
                n.names = [mapping.get(x, x) for x in n.names]
            else:
                cur = getattr(n, attr)
                if cur in temps and cur not in mapping:
                    continue
                setattr(n, attr, mapping.get(cur, cur))
        ast.fix_missing_locations(nf)
        # keep the function's own docstring, annotations and decorators; take body and parameter names of the restored form
        doc = [fn.body[0]] if fn.body and isinstance(fn.body[0], ast.Expr) and isinstance(fn.body[0].value, ast.Constant) and isinstance(fn.body[0].value.value, str) and len(fn.body) > 1 else []
        fn.body = doc + nf.body
        for old_a, new_a in zip(_all_args(fn.args), _all_args(nf.args)):
            old_a.arg = new_a.arg
        done.append(q)
    for q, i, stmt in list(module_units(tree)):
        b = base.get(f"{rel}::{q}")
        if not b:
            continue
        if b.get("raw") == _raw(stmt):
            continue
        nf, dig, order, variants = normal_form(_wrap(stmt))
        if dig != b["skeleton"] or len(order) != len(b["names"]) or len(variants) != len(b.get("variants", [])):
            continue
        if order == b["names"] and variants == b["variants"]:
            continue
        # the assigned name itself is not a local of the pseudo unit's caller: keep it
        nodes = _variant_nodes(nf)
        nf = _Restorer({id(n): v for n, v in zip(nodes, b["variants"])}).visit(nf)
        mapping = dict(zip(order, b["names"]))
        for n, attr in list(_occurrences(nf, set(order))):
            if attr != "names":
                setattr(n, attr, mapping.get(getattr(n, attr), getattr(n, attr)))
        ast.fix_missing_locations(nf)
        if len(nf.body) == 1:
            tree.body[i] = nf.body[0]
            done.append(q)
    return done


def build_baseline(root: str, package: str = "solvor") -> dict:
    out = {}
    pkg = os.path.join(root, package)
    for d, dirs, files in os.walk(pkg):
        dirs[:] = sorted(x for x in dirs if x != "__pycache__")
        for f in sorted(files):
            if not f.endswith(".py"):
                continue
            p = os.path.join(d, f)
            rel = os.path.relpath(p, root)
            with open(p, encoding="utf-8") as fh:
                tree = ast.parse(fh.read())
            for q, fn in units(tree):
                _, dig, order, variants = normal_form(fn)
                out[f"{rel}::{q}"] = {"skeleton": dig, "names": order, "variants": variants, "raw": _raw(fn), "closures": sorted(x.name for x in fn.body if isinstance(x, (ast.FunctionDef, ast.AsyncFunctionDef)))}
            for q, _i, stmt in module_units(tree):
                _, dig, order, variants = normal_form(_wrap(stmt))
                out[f"{rel}::{q}"] = {"skeleton": dig, "names": order, "variants": variants, "raw": _raw(stmt)}
    return out
