"""R17 PARAM-IMMUTABLE and related effect queries."""

from __future__ import annotations

import ast

from .facts import HEAP_MUTATORS, MUTATORS, base_name, mutations
from .index import Func, Repo, own_nodes


def aliases_of_params(f: Func, params: set[str]) -> dict[str, str]:
    """{local name: param it may alias} through plain assignment, conditional expression, `or`, loop iteration
    (an element of a parameter aliases that parameter's sub-object) and tuple unpacking of such."""
    al = {p: p for p in params}
    changed = True
    while changed:
        changed = False
        for n in own_nodes(f.node):
            pairs = []
            if isinstance(n, ast.Assign) and len(n.targets) == 1:
                pairs.append((n.targets[0], n.value))
            elif isinstance(n, (ast.For, ast.comprehension)):
                pairs.append((n.target, n.iter))
            for tgt, val in pairs:
                src = _alias_source(val, al)
                if src is None:
                    continue
                for x in ast.walk(tgt):
                    if isinstance(x, ast.Name) and x.id not in al:
                        al[x.id] = src
                        changed = True
    return al


def _alias_source(val: ast.AST, al: dict[str, str]):
    """param aliased by the value expression, or None when the value is a fresh object"""
    if isinstance(val, ast.Name):
        return al.get(val.id)
    if isinstance(val, ast.IfExp):
        return _alias_source(val.body, al) or _alias_source(val.orelse, al)
    if isinstance(val, ast.BoolOp):
        for v in val.values:
            s = _alias_source(v, al)
            if s:
                return s
        return None
    if isinstance(val, (ast.Subscript, ast.Attribute)):
        return _alias_source(val.value, al)
    if isinstance(val, ast.Call) and isinstance(val.func, ast.Name) and val.func.id in ("enumerate", "zip", "reversed", "iter"):
        for a in val.args:
            s = _alias_source(a, al)
            if s:
                return s
    return None


def param_mutations(repo: Repo, f: Func, params: set[str], depth: int = 0, seen=None):
    """[(func, param, kind, node)] for in-place mutations of the given parameters (or aliases), following calls
    that pass them on to functions of the package."""
    seen = seen if seen is not None else set()
    key = (f.module.name, f.qualname, tuple(sorted(params)))
    if key in seen or depth > 4:
        return []
    seen.add(key)
    out = []
    al = aliases_of_params(f, params & set(f.params) if depth else params)
    for root, kind, node in mutations(f.node):
        if root in al:
            out.append((f, al[root], kind, node))
    for n in own_nodes(f.node):
        if isinstance(n, ast.Call):
            g = repo.resolve_call(f, n)
            if g is None or g is f:
                continue
            passed = set()
            gp = g.params
            off = 1 if (g.cls and gp and gp[0] == "self") else 0
            for i, a in enumerate(n.args):
                b = base_name(a) if isinstance(a, (ast.Name, ast.Subscript, ast.Attribute)) else None
                if b in al and i + off < len(gp):
                    passed.add(gp[i + off])
            for k in n.keywords:
                b = base_name(k.value) if isinstance(k.value, (ast.Name, ast.Subscript, ast.Attribute)) else None
                if b in al and k.arg in gp:
                    passed.add(k.arg)
            if passed:
                for (gf, p, kind, node) in param_mutations(repo, g, passed, depth + 1, seen):
                    out.append((gf, p, kind, node))
    return out


RANDOM_SOURCES = {"random", "time", "uuid", "secrets", "urandom", "getrandbits"}


def nondeterminism_sources(repo: Repo, f: Func, allow_funcs: set[str] = frozenset()):
    """calls / attribute reads that introduce run-to-run variation, in f and its package callees"""
    out = []
    for g in [f] + repo.callees(f):
        if g.name in allow_funcs:
            continue
        for n in own_nodes(g.node):
            if isinstance(n, ast.Call):
                fn = n.func
                if isinstance(fn, ast.Attribute) and isinstance(fn.value, ast.Name) and fn.value.id in ("random", "time", "uuid", "secrets", "os") and fn.attr not in ("path",):
                    out.append((g, ast.unparse(fn), n))
                elif isinstance(fn, ast.Name) and fn.id in ("id", "hash", "perf_counter", "time", "monotonic", "urandom", "uuid4", "getrandbits") :
                    out.append((g, fn.id, n))
            elif isinstance(n, ast.Global):
                out.append((g, "global " + ",".join(n.names), n))
    return out
