"""Un-extract: helpers that the baseline tree does not know are inlined into their callers before anything is analysed.

An "extract function" refactoring moves statements the checks reason about (a Result construction, a residual
expression, a padding loop) into a helper the checks have never heard of.  Analysing the caller alone would lose
those statements (anchor vanished -> ANALYSIS-ERROR), analysing the helper alone loses the caller's arguments.
Following the call is the resolved-program answer: a helper that is *new* with respect to the baseline recorded in
anchors/locals.json (top-level function, or closure of a known function) is substituted back at its call sites

    (T) tail call          return h(a, b)            -> body of h, parameters replaced by the arguments
    (A) assigned call      x = h(a, b)               -> body of h, its final `return e` turned into `x = e`
    (P) procedure call     h(a, b)                   -> body of h (h returns nothing)
    (E) expression call    ... h(a, b) ...           -> the expression h returns (h is a single `return e`)

when that is a pure syntactic operation: h is not recursive, has no *args/**kwargs/nested defs/yield, arguments are
passed positionally or by keyword to plain parameters, and arguments substituted into more than one place are
side-effect-free (names, constants, attribute/subscript chains of names, lambdas).  A parameter that h rebinds is
bound by an explicit assignment first.  Locals of h keep their names (an extraction usually keeps them, and the
checks look for them by name) unless they collide with a name that is live in the caller after the call.
Helpers the baseline knows are never touched.  Nothing is executed."""

from __future__ import annotations

import ast
import copy

MAX_ROUNDS = 3
# (helper, parameter, argument name, line) of every binding made while inlining - the argument-selection sweep (R40)
# still wants to see them
BINDINGS: list = []


def _body_wo_doc(fn):
    b = fn.body
    if b and isinstance(b[0], ast.Expr) and isinstance(b[0].value, ast.Constant) and isinstance(b[0].value.value, str):
        b = b[1:]
    if any(isinstance(x, ast.Nonlocal) for x in b):
        b = [x for x in b if not isinstance(x, ast.Nonlocal)]
    return b


def _nonlocals(fn) -> set[str]:
    return {nm for x in fn.body if isinstance(x, ast.Nonlocal) for nm in x.names}


def _simple(e: ast.AST) -> bool:
    if isinstance(e, (ast.Name, ast.Constant)):
        return True
    if isinstance(e, ast.Attribute):
        return _simple(e.value)
    if isinstance(e, ast.Subscript):
        return _simple(e.value) and _simple(e.slice)
    if isinstance(e, ast.UnaryOp):
        return _simple(e.operand)
    if isinstance(e, ast.Lambda):
        return True
    if isinstance(e, ast.Tuple):
        return all(_simple(x) for x in e.elts)
    return False


def _eligible(fn: ast.FunctionDef) -> bool:
    a = fn.args
    if a.vararg or a.kwarg or a.posonlyargs or fn.decorator_list:
        return False
    for n in ast.walk(fn):
        if n is fn:
            continue
        if isinstance(n, (ast.FunctionDef, ast.AsyncFunctionDef, ast.ClassDef, ast.Yield, ast.YieldFrom, ast.Global, ast.Nonlocal, ast.Await)):
            return False
        if isinstance(n, ast.Call) and isinstance(n.func, ast.Name) and n.func.id == fn.name:
            return False
    return True


def _eligible_closure(fn: ast.FunctionDef) -> bool:
    """closures are inlined where their free variables stay in scope (inside their host function): any body that
    the statement forms accept; `nonlocal` declarations at the top level of the closure are allowed - the names
    they list are the host's, which is where the body goes"""
    a = fn.args
    if a.vararg or a.kwarg or a.posonlyargs or fn.decorator_list:
        return False
    for n in ast.walk(fn):
        if n is fn:
            continue
        if isinstance(n, ast.Nonlocal):
            if not any(n is st for st in fn.body):
                return False
            continue
        if isinstance(n, (ast.FunctionDef, ast.AsyncFunctionDef, ast.ClassDef, ast.Yield, ast.YieldFrom, ast.Global, ast.Await)):
            return False
        if isinstance(n, ast.Call) and isinstance(n.func, ast.Name) and n.func.id == fn.name:
            return False
    return True


def _stores(nodes) -> set[str]:
    out = set()
    for st in nodes:
        for n in ast.walk(st):
            if isinstance(n, ast.Name) and isinstance(n.ctx, (ast.Store, ast.Del)):
                out.add(n.id)
    return out


class _Subst(ast.NodeTransformer):
    def __init__(self, mapping: dict):
        self.m = mapping

    def visit_Name(self, n):
        if n.id in self.m and isinstance(n.ctx, ast.Load):
            return ast.copy_location(copy.deepcopy(self.m[n.id]), n)
        if n.id in self.m and isinstance(self.m[n.id], ast.Name):
            n.id = self.m[n.id].id
        return n

    def visit_Lambda(self, n):
        shadow = {a.arg for a in n.args.args}
        inner = _Subst({k: v for k, v in self.m.items() if k not in shadow})
        n.body = inner.visit(n.body)
        return n


class _Fold(ast.NodeTransformer):
    """constant folding of what a substituted constant argument decides: `a if True else b`, `not False`,
    `if False: ..`, `True and x` - so that the inlined body reads like the code the helper was extracted from"""

    def visit_UnaryOp(self, n):
        self.generic_visit(n)
        if isinstance(n.op, ast.Not) and isinstance(n.operand, ast.Constant) and isinstance(n.operand.value, (bool, type(None))):
            return ast.copy_location(ast.Constant(value=not n.operand.value), n)
        return n

    def visit_BoolOp(self, n):
        self.generic_visit(n)
        vals = []
        for v in n.values:
            if isinstance(v, ast.Constant) and isinstance(v.value, bool):
                if isinstance(n.op, ast.And):
                    if v.value:
                        continue
                    return ast.copy_location(ast.Constant(value=False), n) if not vals else n
                if not v.value:
                    continue
                return ast.copy_location(ast.Constant(value=True), n) if not vals else n
            vals.append(v)
        if not vals:
            return ast.copy_location(ast.Constant(value=isinstance(n.op, ast.And)), n)
        if len(vals) == 1:
            return vals[0]
        n.values = vals
        return n

    def visit_IfExp(self, n):
        self.generic_visit(n)
        if isinstance(n.test, ast.Constant) and isinstance(n.test.value, (bool, type(None))):
            return n.body if n.test.value else n.orelse
        return n

    def visit_If(self, n):
        self.generic_visit(n)
        if isinstance(n.test, ast.Constant) and isinstance(n.test.value, (bool, type(None))):
            return (n.body if n.test.value else n.orelse) or None
        return n


def _bind(fn: ast.FunctionDef, call: ast.Call):
    """(prelude statements, {param: expression}) or None when the call cannot be matched to the parameters"""
    params = [a.arg for a in fn.args.args] + [a.arg for a in fn.args.kwonlyargs]
    pos = [a.arg for a in fn.args.args]
    defaults = dict(zip(pos[len(pos) - len(fn.args.defaults):], fn.args.defaults))
    defaults.update({a.arg: d for a, d in zip(fn.args.kwonlyargs, fn.args.kw_defaults) if d is not None})
    if any(isinstance(a, ast.Starred) for a in call.args) or any(k.arg is None for k in call.keywords) or len(call.args) > len(pos):
        return None
    given = dict(zip(pos, call.args))
    for k in call.keywords:
        if k.arg not in params or k.arg in given:
            return None
        given[k.arg] = k.value
    for p in params:
        if p not in given:
            if p not in defaults:
                return None
            given[p] = defaults[p]
    body = _body_wo_doc(fn)
    rebound = _stores(body) & set(params)
    reads = {}
    for st in body:
        for n in ast.walk(st):
            if isinstance(n, ast.Name) and isinstance(n.ctx, ast.Load):
                reads[n.id] = reads.get(n.id, 0) + 1
    prelude, mapping = [], {}
    for p in params:
        e = given[p]
        if isinstance(e, ast.Name):
            BINDINGS.append((fn.name, p, e.id, call.lineno))
        if p in rebound or not (_simple(e) or reads.get(p, 0) <= 1):
            prelude.append(ast.Assign(targets=[ast.Name(id=p, ctx=ast.Store())], value=copy.deepcopy(e), lineno=call.lineno, col_offset=call.col_offset))
        else:
            mapping[p] = e
    return prelude, mapping


def _inlined_body(fn: ast.FunctionDef, call: ast.Call, live_after: set[str]):
    b = _bind(fn, call)
    if b is None:
        return None
    prelude, mapping = b
    body = copy.deepcopy(_body_wo_doc(fn))
    locals_ = _stores(body) - set(mapping) - _nonlocals(fn)
    for nm in sorted(locals_ & live_after):
        mapping[nm] = ast.Name(id=nm + "__h", ctx=ast.Load())
    sub = _Subst(mapping)
    body = [sub.visit(st) for st in body]
    if any(isinstance(v, ast.Constant) for v in mapping.values()):
        folded = []
        for st in body:
            r = _Fold().visit(st)
            if r is None:
                continue
            folded.extend(r if isinstance(r, list) else [r])
        body = folded or [ast.Pass()]
    body = _drop_temporaries(body, locals_ - live_after)
    for st in prelude + body:
        ast.copy_location(st, call)
        ast.fix_missing_locations(st)
    return prelude + body


def _drop_temporaries(body: list, helper_locals: set) -> list:
    """A helper often names a value once (`first = sols[0]`, `status = Status.OPTIMAL`) where the code it was
    extracted from wrote the expression in place.  Such a local - bound once at the top level of the inlined body to
    a side-effect-free expression whose operands are not rebound afterwards, and dead after the body - is
    substituted into its uses."""
    changed = True
    while changed:
        changed = False
        for i, st in enumerate(body):
            if not (isinstance(st, ast.Assign) and len(st.targets) == 1 and isinstance(st.targets[0], ast.Name)):
                continue
            t = st.targets[0].id
            if t not in helper_locals or not _simple(st.value):
                continue
            stores_all = [n for x in body for n in ast.walk(x) if isinstance(n, ast.Name) and isinstance(n.ctx, (ast.Store, ast.Del)) and n.id == t]
            if len(stores_all) != 1:
                continue
            operands = {n.id for n in ast.walk(st.value) if isinstance(n, ast.Name)}
            later = body[i + 1:]
            if _stores(later) & operands:
                continue
            # a mutation of the operand through a method call between binding and use would change what an inlined
            # expression reads: only straight reads are substituted into (no calls on the operand's root in between)
            roots = set(operands)
            risky = False
            for x in later:
                for n in ast.walk(x):
                    if isinstance(n, ast.Call) and isinstance(n.func, ast.Attribute):
                        b_ = n.func.value
                        while isinstance(b_, (ast.Attribute, ast.Subscript)):
                            b_ = b_.value
                        if isinstance(b_, ast.Name) and b_.id in roots and n.func.attr in ("append", "extend", "insert", "pop", "remove", "clear", "sort", "reverse", "add", "discard", "update", "popleft", "appendleft"):
                            risky = True
                    if isinstance(n, (ast.Subscript, ast.Attribute)) and isinstance(n.ctx, (ast.Store, ast.Del)):
                        b_ = n
                        while isinstance(b_, (ast.Attribute, ast.Subscript)):
                            b_ = b_.value
                        if isinstance(b_, ast.Name) and b_.id in roots:
                            risky = True
            if risky:
                continue
            sub = _Subst({t: st.value})
            body = body[:i] + [sub.visit(x) for x in later]
            changed = True
            break
    return body


def _returns(body) -> list[ast.Return]:
    return [n for st in body for n in ast.walk(st) if isinstance(n, ast.Return)]


def _names_read(nodes) -> set[str]:
    """names whose value at this point may still be read by the statements that follow (a read that comes after an
    unconditional rebinding - plain assignment, loop target - at the same nesting level does not count)"""
    live, killed = set(), set()

    def loads(node):
        # names bound by a comprehension inside the expression are local to it
        bound = {t.id for n in ast.walk(node) if isinstance(n, (ast.ListComp, ast.SetComp, ast.DictComp, ast.GeneratorExp)) for g in n.generators for t in ast.walk(g.target) if isinstance(t, ast.Name)}
        return {n.id for n in ast.walk(node) if isinstance(n, ast.Name) and isinstance(n.ctx, ast.Load)} - bound

    for st in nodes:
        if isinstance(st, (ast.For, ast.AsyncFor)):
            tgt = {n.id for n in ast.walk(st.target) if isinstance(n, ast.Name)}
            reads = loads(st.iter) | ((_names_read(st.body) | _names_read(st.orelse)) - tgt)
            live |= reads - killed
            continue  # the loop may run zero times: its target kills nothing for what follows
        if isinstance(st, ast.While):
            live |= (loads(st.test) | _names_read(st.body) | _names_read(st.orelse)) - killed
            continue
        if isinstance(st, ast.If):
            live |= (loads(st.test) | _names_read(st.body) | _names_read(st.orelse)) - killed
            continue
        live |= loads(st) - killed
        if isinstance(st, ast.Assign):
            for t in st.targets:
                for e in (t.elts if isinstance(t, (ast.Tuple, ast.List)) else [t]):
                    if isinstance(e, ast.Name):
                        killed.add(e.id)
        elif isinstance(st, ast.AnnAssign) and isinstance(st.target, ast.Name) and st.value is not None:
            killed.add(st.target.id)
    return live


def _search_shape(body: list) -> bool:
    """pre-statements without a return, one loop whose returns sit at its own level (not inside an inner loop), and a
    final `return e0` with a side-effect-free e0 that the loop does not rebind"""
    if len(body) < 2 or not isinstance(body[-1], ast.Return) or body[-1].value is None or not _simple(body[-1].value):
        return False
    loop = body[-2]
    if not isinstance(loop, (ast.For, ast.While)) or loop.orelse:
        return False
    if any(isinstance(n, ast.Return) for st in body[:-2] for n in ast.walk(st)):
        return False

    def ok(stmts, depth):
        for st in stmts:
            if isinstance(st, ast.Return):
                if depth > 0 or st.value is None:
                    return False
            elif isinstance(st, (ast.For, ast.While)):
                if not ok(st.body, depth + 1) or not ok(st.orelse, depth + 1):
                    return False
            elif isinstance(st, ast.If):
                if not ok(st.body, depth) or not ok(st.orelse, depth):
                    return False
            elif isinstance(st, (ast.With, ast.Try, ast.Match)):
                if any(isinstance(n, ast.Return) for n in ast.walk(st)):
                    return False
        return True

    if not ok(loop.body, 0):
        return False
    e0_names = {n.id for n in ast.walk(body[-1].value) if isinstance(n, ast.Name)}
    return not (_stores([loop]) & e0_names)


def _returns_to_breaks(loop, target) -> None:
    def rewrite(stmts):
        out = []
        for st in stmts:
            if isinstance(st, ast.Return):
                a = ast.Assign(targets=[copy.deepcopy(target)], value=st.value)
                out.extend([ast.copy_location(a, st), ast.copy_location(ast.Break(), st)])
                continue
            if isinstance(st, ast.If):
                st.body = rewrite(st.body)
                st.orelse = rewrite(st.orelse)
            out.append(st)
        return out

    loop.body = rewrite(loop.body)


class _ReplaceNode(ast.NodeTransformer):
    def __init__(self, target, value):
        self.target, self.value = target, value

    def visit(self, node):
        if node is self.target:
            return ast.copy_location(self.value, node)
        return super().visit(node)


class _ReplaceName(ast.NodeTransformer):
    def __init__(self, name, value):
        self.name, self.value = name, value

    def visit_Name(self, n):
        return self.value if n.id == self.name else n


def _hoistable(root: ast.AST, call: ast.Call) -> bool:
    """`call` is evaluated exactly once whenever `root` is, and everything else in `root` is a name or a constant"""
    def reach(node) -> bool:
        if node is call:
            return True
        if isinstance(node, ast.Call):
            return isinstance(node.func, ast.Name) and (any(reach(a) for a in node.args) or any(reach(k.value) for k in node.keywords))
        if isinstance(node, (ast.Tuple, ast.List)):
            return any(reach(e) for e in node.elts)
        if isinstance(node, ast.BinOp):
            return reach(node.left) or reach(node.right)
        if isinstance(node, ast.UnaryOp):
            return reach(node.operand)
        return False

    if not reach(root):
        return False
    inside = {id(x) for x in ast.walk(call)}
    for x in ast.walk(root):
        if id(x) in inside:
            continue
        if isinstance(x, ast.Call) and not isinstance(x.func, ast.Name):
            return False
        if isinstance(x, ast.Call) and x is not root:
            return False
        if not isinstance(x, (ast.Call, ast.Name, ast.Constant, ast.Tuple, ast.List, ast.BinOp, ast.UnaryOp, ast.keyword, ast.expr_context, ast.operator, ast.unaryop)):
            return False
    return True


class _Inliner:
    def __init__(self, helpers: dict[str, ast.FunctionDef]):
        self.helpers = helpers
        self.count = 0

    def _helper_of(self, call: ast.Call):
        if isinstance(call.func, ast.Name) and call.func.id in self.helpers:
            return self.helpers[call.func.id]
        if isinstance(call.func, ast.Attribute) and isinstance(call.func.value, ast.Name) and call.func.value.id == "self" and f"self.{call.func.attr}" in self.helpers:
            return self.helpers[f"self.{call.func.attr}"]
        return None

    def block(self, stmts: list, following: list) -> list:
        out = []
        for i, st in enumerate(stmts):
            rest = stmts[i + 1:] + following
            rep = self.stmt(st, rest)
            out.extend(rep)
        return out

    def stmt(self, st, rest) -> list:
        h = None
        call = None
        if isinstance(st, ast.Return) and isinstance(st.value, ast.Call):
            call = st.value
        elif isinstance(st, (ast.Assign, ast.AnnAssign)) and isinstance(st.value, ast.Call):
            call = st.value
        elif isinstance(st, ast.Expr) and isinstance(st.value, ast.Call):
            call = st.value
        if call is not None and isinstance(call.func, ast.Name) and call.func.id in self.helpers:
            h = self.helpers[call.func.id]
        elif call is not None and isinstance(call.func, ast.Attribute) and isinstance(call.func.value, ast.Name) and call.func.value.id == "self" and f"self.{call.func.attr}" in self.helpers:
            h = self.helpers[f"self.{call.func.attr}"]
        if h is not None:
            hb = _body_wo_doc(h)
            rets = _returns(hb)
            single_expr = len(hb) == 1 and isinstance(hb[0], ast.Return) and hb[0].value is not None
            if not single_expr:
                live = _names_read(rest)
                if isinstance(st, ast.Return):
                    body = _inlined_body(h, call, set())
                    if body is not None:
                        self.count += 1
                        return self.block(body, rest)
                elif isinstance(st, ast.Expr) and not any(r.value is not None for r in rets) and not rets:
                    body = _inlined_body(h, call, live)
                    if body is not None:
                        self.count += 1
                        return self.block(body, rest)
                elif isinstance(st, ast.Assign) and len(st.targets) == 1 and len(rets) >= 2 and _search_shape(hb):
                    # (S) search helper: `for ..: if c: return e1` + `return e0`  ->  `x = e0; for ..: if c: x = e1; break`
                    tg = {n.id for n in ast.walk(st.targets[0]) if isinstance(n, ast.Name)}
                    body = _inlined_body(h, call, live - tg)
                    if body is not None and _search_shape(body):
                        *pre, loop, last = body
                        first = ast.Assign(targets=[copy.deepcopy(st.targets[0])], value=last.value)
                        _returns_to_breaks(loop, st.targets[0])
                        self.count += 1
                        new_stmts = pre + [first, loop]
                        for x_ in new_stmts:
                            ast.copy_location(x_, st)
                            ast.fix_missing_locations(x_)
                        return self.block(pre, [first, loop] + rest) + [first] + self.block([loop], rest)
                elif isinstance(st, (ast.Assign, ast.AnnAssign)) and len(rets) == 1 and hb and rets[0] is hb[-1] and rets[0].value is not None:
                    tg = {n.id for t in (st.targets if isinstance(st, ast.Assign) else [st.target]) for n in ast.walk(t) if isinstance(n, ast.Name)}
                    body = _inlined_body(h, call, live - tg)
                    if body is not None:
                        last = body[-1]
                        # the helper returns one of its own locals: call it what the caller calls the result
                        if isinstance(st, ast.Assign) and len(st.targets) == 1 and isinstance(st.targets[0], ast.Name) and isinstance(last.value, ast.Name) and last.value.id in (_stores(body[:-1]) - {a_.arg for a_ in h.args.args + h.args.kwonlyargs}) and st.targets[0].id not in {n_.id for x_ in body[:-1] for n_ in ast.walk(x_) if isinstance(n_, ast.Name)}:
                            ren = _Subst({last.value.id: ast.Name(id=st.targets[0].id, ctx=ast.Load())})
                            body = [ren.visit(x_) for x_ in body[:-1]] + [ast.Return(value=ast.Name(id=st.targets[0].id, ctx=ast.Load()))]
                            last = body[-1]
                        new = copy.copy(st)
                        new.value = last.value
                        self.count += 1
                        ident = isinstance(new, ast.Assign) and len(new.targets) == 1 and isinstance(new.targets[0], ast.Name) and isinstance(new.value, ast.Name) and new.value.id == new.targets[0].id
                        tail = [] if ident else [new]
                        return self.block(body[:-1], tail + rest) + tail
        # (H) a multi-statement helper called inside the expression of a simple statement, where nothing that is
        # evaluated before or after it in that statement can tell the difference (names and constants only, the call
        # is evaluated unconditionally, the helper assigns no variable of its host): the call gets a statement of
        # its own in front, which the forms above then substitute
        if h is None and isinstance(st, (ast.Return, ast.Assign, ast.Expr)) and st.value is not None:
            inner = [c for c in ast.walk(st.value) if c is not st.value and isinstance(c, ast.Call) and self._helper_of(c) is not None]
            if len(inner) == 1:
                c = inner[0]
                hh = self._helper_of(c)
                hb = _body_wo_doc(hh)
                rets = _returns(hb)
                multi = not (len(hb) == 1 and isinstance(hb[0], ast.Return))
                if multi and len(rets) == 1 and rets[0] is hb[-1] and rets[0].value is not None and not _nonlocals(hh) and _hoistable(st.value, c):
                    tmp = f"_hoisted{self.count}"
                    taken = {n_.id for n_ in ast.walk(st) if isinstance(n_, ast.Name)} | {n_.id for x_ in rest for n_ in ast.walk(x_) if isinstance(n_, ast.Name)}
                    if tmp not in taken:
                        assign = ast.copy_location(ast.Assign(targets=[ast.Name(id=tmp, ctx=ast.Store())], value=c), st)
                        st.value = _ReplaceNode(c, ast.Name(id=tmp, ctx=ast.Load())).visit(st.value)
                        ast.fix_missing_locations(assign)
                        ast.fix_missing_locations(st)
                        before = self.count
                        out = self.block([assign], [st] + rest)
                        if self.count > before:
                            return out + [st]
                        # not substituted after all: put the call back
                        st.value = _ReplaceName(tmp, c).visit(st.value)
        # recurse into compound statements
        for fld in ("body", "orelse", "finalbody"):
            b = getattr(st, fld, None)
            if isinstance(b, list) and b and isinstance(b[0], ast.stmt) and not isinstance(st, (ast.FunctionDef, ast.AsyncFunctionDef, ast.ClassDef)):
                setattr(st, fld, self.block(b, rest))
        if isinstance(st, ast.Try):
            for hd in st.handlers:
                hd.body = self.block(hd.body, rest)
        if isinstance(st, ast.Match):
            for c in st.cases:
                c.body = self.block(c.body, rest)
        return [st]


class _ExprInliner(ast.NodeTransformer):
    def __init__(self, helpers):
        self.h = helpers
        self.count = 0

    def visit_Call(self, n):
        self.generic_visit(n)
        key = n.func.id if isinstance(n.func, ast.Name) else (f"self.{n.func.attr}" if isinstance(n.func, ast.Attribute) and isinstance(n.func.value, ast.Name) and n.func.value.id == "self" else None)
        if key is not None and key in self.h:
            h = self.h[key]
            hb = _body_wo_doc(h)
            if len(hb) == 1 and isinstance(hb[0], ast.Return) and hb[0].value is not None and all(_simple(a) for a in n.args) and all(_simple(k.value) for k in n.keywords):
                b = _bind(h, n)
                if b is not None and not b[0]:
                    e = _Subst(b[1]).visit(copy.deepcopy(hb[0].value))
                    self.count += 1
                    return ast.copy_location(e, n)
        return n


def unextract(rel: str, tree: ast.Module, known: dict) -> list[str]:
    """Inline helpers unknown to the baseline (`known`: anchors/locals.json) into their callers, in place.
    Returns the names of the helpers that were inlined somewhere."""
    if not known or not any(k.startswith(rel + "::") for k in known):
        return []  # a module the baseline has never seen: nothing to compare with
    done = []
    for _round in range(MAX_ROUNDS):
        helpers = {}
        for n in tree.body:
            if isinstance(n, ast.FunctionDef) and f"{rel}::{n.name}" not in known and _eligible(n):
                helpers[n.name] = n
        # closures of known functions that the baseline does not list
        from .derename import units

        hosts = []
        for q, fn in units(tree):
            b = known.get(f"{rel}::{q}")
            if not b or "closures" not in b:
                continue
            local_new = {x.name: x for x in fn.body if isinstance(x, ast.FunctionDef) and x.name not in b["closures"] and _eligible_closure(x)}
            if local_new:
                hosts.append((fn, local_new))
        # methods the baseline does not list, of classes it knows: `self.m(..)` inside the other methods of the class
        class_hosts = []
        for c in tree.body:
            if not isinstance(c, ast.ClassDef):
                continue
            known_methods = [k for k in known if k.startswith(f"{rel}::{c.name}.")]
            if not known_methods:
                continue
            new_m = {}
            for x in c.body:
                if isinstance(x, ast.FunctionDef) and f"{rel}::{c.name}.{x.name}" not in known and x.args.args and x.args.args[0].arg == "self" and not x.name.startswith("__"):
                    y = copy.copy(x)
                    y.args = copy.copy(x.args)
                    y.args.args = x.args.args[1:]
                    if len(x.args.defaults) > len(y.args.args):
                        continue
                    if _eligible(y):
                        new_m[f"self.{x.name}"] = y
            if new_m:
                class_hosts.append((c, new_m))
        changed = 0
        for c, new_m in class_hosts:
            inl = _Inliner(new_m)
            ex = _ExprInliner(new_m)
            for x in c.body:
                if isinstance(x, ast.FunctionDef) and f"self.{x.name}" not in new_m:
                    for y in ast.walk(x):
                        if isinstance(y, (ast.FunctionDef, ast.AsyncFunctionDef)):
                            y.body = inl.block(y.body, [])
                            y.body = [ex.visit(st) for st in y.body]
            if inl.count or ex.count:
                changed += inl.count + ex.count
                done.extend(sorted(k.split(".", 1)[1] for k in new_m))
        # module-level helpers: into every function of the module (the helpers themselves included, for chains)
        if helpers:
            for n in ast.walk(tree):
                if isinstance(n, (ast.FunctionDef, ast.AsyncFunctionDef)) :
                    hs = {k: v for k, v in helpers.items() if v is not n}
                    if not hs:
                        continue
                    inl = _Inliner(hs)
                    n.body = inl.block(n.body, [])
                    ex = _ExprInliner(hs)
                    n.body = [ex.visit(st) for st in n.body]
                    if inl.count or ex.count:
                        changed += inl.count + ex.count
                        done.extend(sorted(hs))
        for fn, local_new in hosts:
            inl = _Inliner(local_new)
            ex = _ExprInliner(local_new)
            carried = set().union(*(_nonlocals(h_) for h_ in local_new.values())) if local_new else set()
            for x in ast.walk(fn):
                if isinstance(x, (ast.FunctionDef, ast.AsyncFunctionDef)) and x.name not in local_new:
                    before = inl.count
                    x.body = inl.block(x.body, [])
                    x.body = [ex.visit(st) for st in x.body]
                    if x is not fn and inl.count > before and carried:
                        # the inlined body assigns variables of the host: the sibling closure has to declare them
                        declared = {nm for st in x.body if isinstance(st, (ast.Nonlocal, ast.Global)) for nm in st.names}
                        params_ = {a_.arg for a_ in x.args.args + x.args.kwonlyargs}
                        assigned = {n_.id for n_ in ast.walk(x) if isinstance(n_, ast.Name) and isinstance(n_.ctx, (ast.Store, ast.Del))}
                        need = sorted((carried & assigned) - declared - params_)
                        if need:
                            k = 1 if x.body and isinstance(x.body[0], ast.Expr) and isinstance(x.body[0].value, ast.Constant) and isinstance(x.body[0].value.value, str) else 0
                            x.body.insert(k, ast.Nonlocal(names=need))
            if inl.count or ex.count:
                changed += inl.count + ex.count
                done.extend(sorted(local_new))
        if not changed:
            break
        ast.fix_missing_locations(tree)
    # helpers that are no longer called anywhere in the module are dropped (they would only be swept as dead code)
    if done:
        called = {n.func.id for n in ast.walk(tree) if isinstance(n, ast.Call) and isinstance(n.func, ast.Name)} | {n.id for n in ast.walk(tree) if isinstance(n, ast.Name) and isinstance(n.ctx, ast.Load)} | {n.attr for n in ast.walk(tree) if isinstance(n, ast.Attribute)}
        for holder in [tree] + [x for x in ast.walk(tree) if isinstance(x, (ast.FunctionDef, ast.ClassDef))]:
            holder.body = [x for x in holder.body if not (isinstance(x, ast.FunctionDef) and x.name in done and x.name not in called)] or holder.body
    return sorted(set(done))
